#!/usr/bin/env python3
"""Rebuilds seeded/README.md (one row per seeded change: what it is, which
checks were run against it and what they reported) from seeded/*/meta.json,
notes.md and seeded/RESULTS.json, writes 'detected_by' back into each
meta.json, and refreshes the block between the SEEDS markers in DESIGN.md."""
import json, os, re, glob
V = os.path.dirname(os.path.dirname(os.path.abspath(__file__)))
S = os.path.join(V, 'seeded')
res = json.load(open(os.path.join(S, 'RESULTS.json')))
rows = []
for d in sorted(glob.glob(os.path.join(S, '*/'))):
    sid = os.path.basename(d.rstrip('/'))
    mp = os.path.join(d, 'meta.json')
    meta = json.load(open(mp)) if os.path.exists(mp) else {'id': sid}
    title = meta.get('what')
    np_ = os.path.join(d, 'notes.md')
    if not title and os.path.exists(np_):
        first = open(np_).readline().strip().lstrip('#').strip()
        title = re.sub(r'^(C\d\d\s*/\s*)?m\d\s*[—:-]+\s*', '', first)
    title = (title or '').replace('|', '/')
    r = dict(res.get(sid, {}))
    stale = r.pop('apply', None)
    if meta.get('stale') or (stale and not any(v['exit'] in (0, 1) for v in r.values())):
        # the code it patches was changed by a later repair in /repo (or the
        # repair made it harmless): keep the verdict from when it was valid
        meta.setdefault('stale', 'patch.diff no longer applies to /repo HEAD (or no longer demonstrates anything there) since a later fix: commit touched the same code; verdict below is from when it did')
        det = [k for k in meta.get('detected_by', [])]
        miss = [k for k in meta.get('not_detected_by', [])]
        err = []
        title_prefix = '[not re-based onto the current HEAD; verdict from when it applied] '
    else:
        title_prefix = ''
        det = sorted(k for k, v in r.items() if v['exit'] == 1)
        miss = sorted(k for k, v in r.items() if v['exit'] == 0)
        err = sorted(k for k, v in r.items() if v['exit'] not in (0, 1))
        meta['detected_by'] = det
        meta['not_detected_by'] = miss
        meta['first_signature'] = {k: (r[k]['signatures'] or [''])[0] for k in det}
    title = title_prefix + title
    if os.path.exists(mp):
        json.dump(meta, open(mp, 'w'), indent=1)
    prop = meta.get('property') or ''
    if meta.get('obsolete'):
        title = '[obsolete: ' + meta['obsolete'][:90] + '...] ' + title
        det, miss = ['(n/a)'], []
    rows.append((sid, prop, title, det, miss, err, meta.get('demo_mode', '')))
lines = ['| seed | property | change | caught by (quick tier) | run, silent |', '|---|---|---|---|---|']
for sid, prop, title, det, miss, err, mode in rows:
    lines.append('| %s | %s | %s | %s | %s |' % (
        sid, prop, title[:160], ', '.join(x.split('@')[0] for x in det) or '—',
        ', '.join(x.split('@')[0] for x in miss + err) or ''))
live = [r for r in rows if r[3] != ['(n/a)']]
own = sum(1 for sid, prop, t, det, m, e, _ in live if any(x.startswith(prop + '@') for x in det))
anyd = sum(1 for r in live if r[3])
summary = '%d seeded changes (%d still valid demonstrations against the current /repo HEAD); %d caught by at least one check, %d by the check of the property they were written against.' % (len(rows), len(live), anyd, own)
table = summary + '\n\n' + '\n'.join(lines) + '\n'
open(os.path.join(S, 'README.md'), 'w').write(
    '# Seeded changes\n\nEach directory holds patch.diff (against /repo HEAD at the time), the demonstration, notes and meta.json.\n'
    'None of these is ever committed to /repo; checks run against a scratch worktree (tools/seedrun.sh, tools/seedmatrix.py).\n\n' + table)
dp = os.path.join(V, 'DESIGN.md')
s = open(dp).read()
if '<!-- SEEDS:BEGIN -->' in s:
    s = re.sub(r'<!-- SEEDS:BEGIN -->.*<!-- SEEDS:END -->', '<!-- SEEDS:BEGIN -->\n' + table + '<!-- SEEDS:END -->', s, flags=re.S)
    open(dp, 'w').write(s)
print(summary)
for sid, prop, t, det, miss, err, _ in rows:
    if not det:
        print('  NOT CAUGHT:', sid, miss, err)
