#!/bin/bash
# usage: tools/ingest_seed.sh <src-dir with patch.diff demo.py notes.md> <seed-id> <property> [mode]
# Confirms a candidate seeded change independently (fresh scratch worktree:
# patch applies, the unedited suite still passes, the demonstration fails with
# the change and passes without it) and, only then, files it under
# /verif/seeded/<seed-id>/.   mode = C | PURE | BOTH (which implementation the
# demonstration is run under; default C).
set -u
src=$(readlink -f "$1"); id=$2; prop=$3; mode=${4:-C}
V=$(dirname "$(dirname "$(readlink -f "$0")")")
wt=$(mktemp -d /tmp/ingest.XXXXXX)
git -C /repo worktree add --detach "$wt" HEAD >/dev/null 2>&1 || exit 2
cleanup() { git -C /repo worktree remove --force "$wt" 2>/dev/null; git -C /repo worktree prune; }
trap cleanup EXIT
rundemo() { # prints exit code
  if [ "$mode" = PURE ]; then "$V"/tools/seedkit/runpy.sh "$wt" PURE "$src/demo.py" >/dev/null 2>&1; echo $?
  else "$V"/tools/seedkit/runpy.sh "$wt" "$src/demo.py" >/dev/null 2>&1; echo $?; fi; }
"$V"/tools/seedkit/build.sh "$wt" || { echo "$id: clean tree does not build?"; exit 2; }
clean=$(cd "$wt" && rundemo)
git -C "$wt" apply "$src/patch.diff" || { echo "$id: REJECT patch does not apply"; exit 1; }
suite=$("$V"/tools/seedkit/runsuite.sh "$wt" | tail -1)
case "$suite" in *"NOT passing: 0"*) ;; *) echo "$id: REJECT suite: $suite"; exit 1;; esac
patched=$(cd "$wt" && rundemo)
if [ "$clean" != 0 ] || [ "$patched" = 0 ]; then echo "$id: REJECT demo clean=$clean patched=$patched (mode $mode)"; exit 1; fi
mkdir -p "$V/seeded/$id"
cp "$src/patch.diff" "$src/demo.py" "$V/seeded/$id/"
[ -f "$src/notes.md" ] && cp "$src/notes.md" "$V/seeded/$id/notes.md"
python3 - "$V/seeded/$id" "$id" "$prop" "$mode" "$suite" <<'PY'
import json, sys, os
d, id_, prop, mode, suite = sys.argv[1:6]
notes = open(os.path.join(d, 'notes.md')).read() if os.path.exists(os.path.join(d, 'notes.md')) else ''
meta = {'id': id_, 'property': prop, 'origin': 'independent sub-agent given only the property text and a scratch worktree',
        'demo_mode': mode,
        'needs_to_manifest': 'see notes.md',
        'confirmed': {'suite': 'fresh scratch worktree + patch, tools/seedkit/runsuite.sh: ' + suite,
                      'demo': 'demo.py exit 0 on HEAD, exit 1 with the patch (mode %s)' % mode}}
json.dump(meta, open(os.path.join(d, 'meta.json'), 'w'), indent=1)
PY
echo "$id: ACCEPTED ($suite; demo clean=$clean patched=$patched)"
