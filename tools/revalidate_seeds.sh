#!/bin/bash
# Re-confirms every seeded change against the *current* /repo HEAD: the patch
# still applies, and the demonstration still passes without it and fails with
# it (repairs made in /repo later can turn a seeded change harmless).
# Prints one line per seed that is no longer a valid demonstration.
cd "$(dirname "$(readlink -f "$0")")/.."
wt=$(mktemp -d /tmp/reval.XXXXXX)
git -C /repo worktree add --detach "$wt" HEAD >/dev/null 2>&1 || exit 2
trap 'git -C /repo worktree remove --force "$wt" 2>/dev/null; git -C /repo worktree prune' EXIT
tools/seedkit/build.sh "$wt"
for d in seeded/*/; do
  id=$(basename "$d"); [ -f "$d/patch.diff" ] && [ -f "$d/demo.py" ] || continue
  mode=$(python3 -c "import json;print(json.load(open('$d/meta.json')).get('demo_mode','C'))" 2>/dev/null || echo C)
  run() { if [ "$mode" = PURE ]; then tools/seedkit/runpy.sh "$wt" PURE "$PWD/$d/demo.py" >/dev/null 2>&1; else tools/seedkit/runpy.sh "$wt" "$PWD/$d/demo.py" >/dev/null 2>&1; fi; echo $?; }
  clean=$(run)
  if ! git -C "$wt" apply "$PWD/$d/patch.diff" 2>/dev/null; then echo "$id: patch no longer applies"; continue; fi
  grep -q "coptimizations.c" "$d/patch.diff" && tools/seedkit/build.sh "$wt"
  patched=$(run)
  git -C "$wt" checkout -q -- .
  grep -q "coptimizations.c" "$d/patch.diff" && tools/seedkit/build.sh "$wt"
  if [ "$clean" != 0 ] || [ "$patched" = 0 ]; then echo "$id: NO LONGER A DEMONSTRATION (clean=$clean patched=$patched, mode $mode)"; fi
done
echo "revalidation finished"
