#!/bin/bash
# usage: tools/seedrun.sh <patch.diff|worktree-dir> <check ids...> [-- extra ./check args]
# Runs the named checks (quick tier unless VERIF_TIER says otherwise) against a
# scratch worktree of /repo with the patch applied, never against /repo itself,
# and prints one summary line per check.  Evidence and replays of these runs go
# to a scratch directory, not to /verif/evidence.
set -u
cd "$(dirname "$(readlink -f "$0")")/.."
src=$1; shift
ids=(); while [ $# -gt 0 ] && [ "$1" != "--" ]; do ids+=("$1"); shift; done
[ $# -gt 0 ] && shift
if [ -d "$src" ]; then wt=$(readlink -f "$src"); own=0
else
  wt=$(mktemp -d /tmp/seedrun.XXXXXX); own=1
  git -C /repo worktree add --detach "$wt" HEAD >/dev/null 2>&1 || exit 2
  git -C "$wt" apply "$(readlink -f "$src")" || { echo "patch does not apply"; git -C /repo worktree remove --force "$wt"; exit 2; }
fi
out=$(mktemp -d /tmp/seedout.XXXXXX)
rc_all=0
for id in "${ids[@]}"; do
  VERIF_REPO=$wt VERIF_OUT=$out ./check "$id" "$@" >"$out/$id.log" 2>"$out/$id.err"; rc=$?
  echo "== $id exit=$rc $(grep -c '^VIOLATION' "$out/$id.log") violation line(s)"
  grep -E -A2 "^VIOLATION" "$out/$id.log" | cut -c1-400 | head -12
  [ $rc -eq 2 ] && tail -5 "$out/$id.err"
  grep -E "^C[0-9]+ (ok|FAIL)" "$out/$id.log" | cut -c1-200
done
[ "${KEEP_OUT:-0}" = 1 ] && echo "output kept in $out" || rm -rf "$out"
if [ $own = 1 ]; then git -C /repo worktree remove --force "$wt"; git -C /repo worktree prune; fi
