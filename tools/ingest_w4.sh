#!/bin/bash
# usage: tools/ingest_w4.sh Cxx   -- confirms and files /tmp/w4out/Cxx/m{1,2,3} as seeded/Cxx-w4m{1,2,3}
p=$1; cd "$(dirname "$(readlink -f "$0")")/.."
for k in 1 2 3; do
  d=/tmp/w4out/$p/m$k; [ -f $d/patch.diff ] || { echo "$p m$k: missing"; continue; }
  mode=$(grep -i -o -E "mode:\**\s*\**(BOTH|PURE|C)\b" $d/notes.md | head -1 | grep -o -E "(BOTH|PURE|C)$")
  mode=${mode:-C}
  m2=$mode; [ $mode = BOTH ] && m2=C
  tools/ingest_seed.sh $d $p-w4m$k $p $m2
  if [ $mode = BOTH ] && [ -d seeded/$p-w4m$k ]; then python3 - seeded/$p-w4m$k/meta.json <<'PY'
import json,sys
m=json.load(open(sys.argv[1])); m['demo_modes_claimed']='BOTH'; json.dump(m,open(sys.argv[1],'w'),indent=1)
PY
  fi
done
