#!/bin/bash
# run every claimed check's quick (or $1) tier sequentially; summary lines only
tier=${1:-quick}
cd "$(dirname "$0")/.."
for p in $(python3 -c "import json;print(' '.join(c['property_id'] for c in json.load(open('MANIFEST.json'))['checks']))"); do
  ./check $p --tier $tier 2>/dev/null | grep -E "^(C[0-9]+ |VIOLATION|KNOWN-FINDING)" | cut -c1-220
  echo "  exit=${PIPESTATUS[0]}"
done
