#!/bin/bash
# usage: tools/ingest_wave.sh <wave-number> Cxx   -- confirms and files /tmp/w${w}out/Cxx/m{1,2,3} as seeded/Cxx-w${w}m{1,2,3}
w=$1; p=$2; cd "$(dirname "$(readlink -f "$0")")/.."
for k in 1 2 3; do
  d=/tmp/w${w}out/$p/m$k; [ -f $d/patch.diff ] || { echo "$p m$k: missing"; continue; }
  mode=$(grep -i -o -E "mode:\**\s*\**(BOTH|PURE|C)\b" $d/notes.md | head -1 | grep -o -E "(BOTH|PURE|C)$")
  mode=${mode:-C}
  m2=$mode; [ $mode = BOTH ] && m2=C
  tools/ingest_seed.sh $d $p-w${w}m$k $p $m2
  if [ $mode = BOTH ] && [ -d seeded/$p-w${w}m$k ]; then python3 - seeded/$p-w${w}m$k/meta.json <<'PY'
import json,sys
m=json.load(open(sys.argv[1])); m['demo_modes_claimed']='BOTH'; json.dump(m,open(sys.argv[1],'w'),indent=1)
PY
  fi
done
