#!/usr/bin/env python3
"""usage: tools/seedmatrix.py [--tier quick|thorough] <seed-id>:<check>[,<check>...] ...
Runs the named checks against each seeded change (scratch worktree of /repo
with seeded/<seed-id>/patch.diff applied; never /repo itself) and merges the
outcome into seeded/RESULTS.json: {seed: {check@tier: {exit, signatures}}}."""
import json, os, re, subprocess, sys, tempfile, shutil, fcntl, time
V = os.path.dirname(os.path.dirname(os.path.abspath(__file__)))
RES = os.path.join(V, 'seeded', 'RESULTS.json')

def record(seed, key, val):
    with open(RES + '.lock', 'w') as lk:
        fcntl.flock(lk, fcntl.LOCK_EX)
        d = json.load(open(RES)) if os.path.exists(RES) else {}
        d.setdefault(seed, {})[key] = val
        with open(RES + '.tmp', 'w') as f:
            json.dump(d, f, indent=1, sort_keys=True)
        os.replace(RES + '.tmp', RES)

def main():
    args = sys.argv[1:]
    tier = 'quick'
    if args and args[0] == '--tier':
        tier = args[1]; args = args[2:]
    for a in args:
        seed, checks = a.split(':')
        patch = os.path.join(V, 'seeded', seed, 'patch.diff')
        wt = tempfile.mkdtemp(prefix='seedmx.')
        subprocess.check_call(['git', '-C', '/repo', 'worktree', 'add', '--detach', wt, 'HEAD'],
                              stdout=subprocess.DEVNULL, stderr=subprocess.DEVNULL)
        try:
            if subprocess.call(['git', '-C', wt, 'apply', patch]) != 0 and \
                    subprocess.call(['git', '-C', wt, 'apply', '--3way', patch]) != 0:
                print('%s: PATCH DOES NOT APPLY to the current HEAD' % seed, flush=True)
                record(seed, 'apply', dict(exit=2, violations=0, signatures=[], first='patch does not apply', wall_s=0))
                continue
            for chk in checks.split(','):
                out = tempfile.mkdtemp(prefix='seedout.')
                env = dict(os.environ, VERIF_REPO=wt, VERIF_OUT=out)
                t0 = time.time()
                r = subprocess.run([os.path.join(V, 'check'), chk, '--tier', tier], env=env,
                                   capture_output=True, text=True, cwd=V)
                sigs = re.findall(r'^  impl=\S+ sig=(\S+)', r.stdout, re.M)
                nviol = len(re.findall(r'^VIOLATION', r.stdout, re.M))
                first = ''
                m = re.search(r'^VIOLATION.*\n.*\n(.*)', r.stdout, re.M)
                if m:
                    first = m.group(1).strip()[:400]
                record(seed, '%s@%s' % (chk, tier), dict(exit=r.returncode, violations=nviol,
                       signatures=sigs[:8], first=first, wall_s=round(time.time() - t0, 1)))
                print('%s %s@%s exit=%d viol=%d %s' % (seed, chk, tier, r.returncode, nviol, sigs[:3]), flush=True)
                if r.returncode == 2:
                    print(r.stderr[-1500:])
                shutil.rmtree(out, ignore_errors=True)
        finally:
            subprocess.call(['git', '-C', '/repo', 'worktree', 'remove', '--force', wt])
            subprocess.call(['git', '-C', '/repo', 'worktree', 'prune'])

main()
