#!/bin/bash
# usage: runsuite.sh <worktree>
# rebuilds the C accelerator of that tree, runs the pinned test command there and
# compares with the 1350 baseline tests.  Last line:
#   passed N, baseline 1350, baseline tests NOT passing: K
here=$(dirname "$(readlink -f "$0")")
wt=$(readlink -f "$1")
"$here/build.sh" "$wt" || { echo "BUILD FAILED"; echo "passed 0, baseline 1350, baseline tests NOT passing: 1350"; exit 1; }
out=$(mktemp -d /tmp/seedkit-suite.XXXXXX)
trap 'rm -rf "$out"' EXIT
cd "$wt" || exit 2
SEEDKIT_WT=$wt PYTHONPATH=$here/site PYTHONDONTWRITEBYTECODE=1 /venv/bin/python -m pytest -ra -q -p no:cacheprovider --timeout=900 \
    --continue-on-collection-errors --junitxml="$out/junit.xml" >"$out/pytest.log" 2>&1
tail -2 "$out/pytest.log"
/venv/bin/python - "$out/junit.xml" "$wt" <<'PY'
import json, sys, xml.etree.ElementTree as ET
b = set(json.load(open('/root/.vp/BASELINE.json'))['stable_pass'])
ok = set()
for tc in ET.parse(sys.argv[1]).iter('testcase'):
    if not any(c.tag in ('failure', 'error', 'skipped') for c in tc):
        ok.add(tc.get('classname') + '::' + tc.get('name'))
miss = sorted(b - ok)
for m in miss[:15]:
    print('  NOT PASSING:', m)
print('passed %d, baseline %d, baseline tests NOT passing: %d' % (len(ok), len(b), len(miss)))
sys.exit(1 if miss else 0)
PY
