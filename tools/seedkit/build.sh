#!/bin/bash
# usage: build.sh <worktree>   -- compiles the C accelerator in place in that tree
wt=$(readlink -f "$1")
cd "$wt" || exit 2
inc=$(/venv/bin/python -c "import sysconfig;print(sysconfig.get_paths()['include'])")
suf=$(/venv/bin/python -c "import sysconfig;print(sysconfig.get_config_var('EXT_SUFFIX'))")
gcc -shared -fPIC -O1 -g -I"$inc" src/zope/interface/_zope_interface_coptimizations.c \
    -o "src/zope/interface/_zope_interface_coptimizations$suf" 2>/tmp/seedkit-build.$$.log
rc=$?
[ $rc -ne 0 ] && cat /tmp/seedkit-build.$$.log
rm -f /tmp/seedkit-build.$$.log
exit $rc
