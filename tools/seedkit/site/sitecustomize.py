# makes `zope.interface` come from the tree named by SEEDKIT_WT instead of /repo
import os
_wt = os.environ.get('SEEDKIT_WT')
if _wt:
    import zope
    _p = os.path.join(_wt, 'src', 'zope')
    if _p not in zope.__path__:
        zope.__path__.insert(0, _p)
