#!/bin/bash
# usage: runpy.sh <worktree> [PURE] <script.py> [args...]
# runs the script with zope.interface imported from <worktree>/src
# (PURE: with PURE_PYTHON=1, i.e. without the C accelerator)
here=$(dirname "$(readlink -f "$0")")
wt=$(readlink -f "$1"); shift
if [ "$1" = PURE ]; then export PURE_PYTHON=1; shift; fi
export SEEDKIT_WT=$wt PYTHONPATH=$here/site PYTHONDONTWRITEBYTECODE=1
exec /venv/bin/python "$@"
