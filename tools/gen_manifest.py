#!/usr/bin/env python3
"""Regenerates /verif/MANIFEST.json from the table below (and validates it)."""
import json
import os

V = os.path.dirname(os.path.dirname(os.path.abspath(__file__)))

MC = 'model_checking'
E1 = 'explicit-state BFS over operation histories executed on the real objects (state = history, canonical de-duplication), oracle evaluated in every state against a reference model; both implementations'
E2 = 'bounded-exhaustive enumeration of inputs (complete finite space) executed on the real objects against a reference model; both implementations'
CHECKS = {
    'C01': dict(technique=E1 + '; two models L subset reported subset U',
        text='All histories of declaration calls / queries / subclass and instance creation / object death up to the depth over a class tree and a diamond with an undeclared mixin are executed on fresh real classes; in every reached state every object and class is queried through all four query forms and compared with the reference models.',
        note='Bounded: 3 interfaces (+1 implemented by a metaclass), 3-5 classes, 4-6 instances, depth as reported in the evidence. Trusts the reference model and CPython.', ref='3/C01'),
    'C02': dict(technique=E1 + '; oracle = reachability over current __bases__ + twin graph built in the final shape',
        text='All sequences of __bases__ reassignments (and declaration calls that re-base class/instance declarations) up to the depth on a mixed specification graph; every specification checked in every state.',
        note='4 interfaces + 2 class declarations + 1 instance declaration + 1 plain Declaration; base lists <= 2 (thorough 3); cycles excluded. Extra layers: assignments nested inside a change notification (a dependent re-bases another interface), and a search that starts from a pre-built graph with a chain and a redundant edge.', ref='3/C02'),
    'C03': dict(technique=E2 + '; oracles: textbook C3 and CPython type.mro(), cross-checked; plus E1 rebasing histories',
        text='Every ordered-base DAG up to 5 nodes (thorough: 6-node extensions) as real interfaces, class hierarchies with declarations, strict/legacy arguments and environment switches in separate processes, and all rebasing histories up to depth 2/3.',
        note='Bounded DAG size; trusts CPython MRO and the 20-line C3. Environments: default, strict, legacy, log-changed, track-bad; DAGs of falsy interfaces; the root named explicitly among the bases; re-basing histories also under the strict environment switch. One recorded known finding (strict mode refuses a consistent re-basing in a diamond).', ref='3/C03'),
    'C04': dict(technique=E2 + '; brute-force ranking oracle over the registration list',
        text='Every registry content up to size 2 (thorough 3) over a key universe of arity 0-2 keys, placed in the registry or a base, x every lookup key, both registry flavours; plus every sequence of <= 4 (thorough 5) register/unregister operations over a five-interface provided hierarchy (the extendors lists are order dependent).',
        note='Fixed hierarchy with both orders of multiple inheritance, class and instance declarations as keys; ambiguity between incomparable provided interfaces accepted either way.', ref='3/C04'),
    'C05': dict(technique='exhaustive enumeration of lookup/mutation histories by shape, executed on real registries; oracle = twin world that replays only the mutations; both implementations, both flavours',
        text='Every history of each shape (L M L, warm-all M warm-all M L, L M M s, ...) over 37 lookups (all entry points, colliding keys, handlers, a multi-adapter key) and 56 mutations covering every mutation kind the property names.',
        note='Shapes and alphabets as listed in the evidence; twin has the same flavour.', ref='3/C05'),
    'C06': dict(technique=E1 + '; oracle = reference C3 over the current registry bases graph + fresh twin DAG; run to a fixpoint in thorough',
        text='All histories of __bases__ reassignment at any level, registrations in any member and cache-warming lookups over 3 and 4 registries of each flavour (from the empty state and from a pre-built populated chain) and through Components.',
        note='Homogeneous registry DAGs with a consistent C3 order; one live subscription per registry.', ref='3/C06'),
    'C07': dict(technique=E1 + '; list model with documented unsubscribe semantics; multiset + stated order constraints',
        text='All subscribe/unsubscribe histories up to the depth (equal-not-identical values, handlers, arity 0-2) on a registry and its base, 27 lookup keys checked in every state.',
        note='Order between entries differing only in provided / crossing required tuples is unconstrained (not stated).', ref='3/C07'),
    'C08': dict(technique=E2 + '; definitional equalities against cold lookup()/subscriptions()',
        text='Every registry of size <= 2 (thorough 3), entries living in the registry or in its base, x objects (plain, subclass, directly providing, super proxy, unrelated) x every ordered pair (warm-up entry point, measured entry point); non-string names on every path.',
        note='7 single-arity keys + 3 two-arity keys, 3 factories, both flavours.', ref='3/C08'),
    'C09': dict(technique=E1 + '; dict + list model; differential replay of listings and rebuild()',
        text='All register/unregister/subscribe/unsubscribe/rebuild histories up to the depth over 7-9 keys; listings compared exactly in every state, lookups against the brute-force winner and against a re-populated registry.',
        note='Depth-bounded; values a, a\' (equal, not identical), b (falsy). Plans: seven keys, three keys deeper, keys sharing a two-level required path, subscribers only (deeper).', ref='3/C09'),
    'C10': dict(technique='lock-step differential model checking: the same exhaustively enumerated programs (history BFS alphabets, complete input products, odd-values alphabet) executed under the C accelerator and PURE_PYTHON=1 in separate processes, per-step observations compared',
        text='Lock-step BFS over the alphabets of C01/C02/C06/C07/C09/C16, exact-result enumeration of the C04/C08/C14/C19/C20 input spaces, and an odd-values alphabet through every public entry point, and odd (non-string, falsy, unhashable) names through every name-taking entry point cold and warm.',
        note='"Any program" = union of the bounded alphabets; exception messages are not compared, only types. Two recorded known-finding signatures (hostile __class__ on a name argument).', ref='3/C10'),
    'C11': dict(technique='(a) exhaustive fault/re-entrancy injection: every call-out site of a lookup x every action; (b) stateless model checking of real threads under a cooperative scheduler (sys.settrace scheduling points), all schedules up to a preemption bound; oracles: atomicity vs twin worlds, no stale survivor, ownership audit of cache containers at the call-out, reference audit after the lookup ended, leak check',
        text='Every (flavour, entry point, site, action, warm/cold) injection scenario (sites: every callback out of a lookup incl. destructors of cached values and of lazily produced required specifications; actions: mutations, re-entrant lookups, gc, exceptions, mutations whose closing invalidation fails), each followed by later registrations in every base and a later change of the looked-up interface; every mutator || lookup harness (11 mutators) over all schedules with <= 1 preemption (core harnesses 2; thorough 2/3), lookup-only and three-thread harnesses, harnesses whose lookup object already watches the looked-up specifications, and verifying lookups that recompute their resolution order while a registry above is re-based.',
        note='Scheduling granularity = trace events in adapter.py/interface.py/declarations.py (ro.py too where a resolution order is recomputed), C code atomic (GIL); the library\'s module-level locks are replaced by scheduler-aware locks (deadlocks and hangs are reported); memory safety through the ownership audit plus a valgrind memcheck pass over the injection scenarios; atomicity is only required with respect to registry mutations.', ref='3/C11'),
    'C12': dict(technique=E2 + ' in 8 processes (4 hash seeds x 2 implementations) whose complete result matrices must be identical',
        text='All ordered pairs under six comparison operators and hash, all triples, sorted() of 4-element mixed sub-collections in many permutations.',
        note='Four hash seeds stand for all hash seeds; names over a 6-element alphabet incl. empty, prefix-related and non-ASCII, every interface with its own (non-interned) string objects; blank-containing names. One recorded known finding (== between a None-named and a named interface raises in the Python implementation).', ref='3/C12'),
    'C13': dict(technique=E2 + '; unpickled in the same process, a fresh process, another hash seed and the other implementation',
        text='Every subject (interface, implementedBy, class and instance provides-declarations, objects) of every declaration shape in the fixture module x protocols 0-5.',
        note='Shapes are those of fixtures/zi_fix13.py (22 classes x 9 instance shapes). One recorded known finding (ClassProvides round trip is a new unequal object).', ref='3/C13'),
    'C14': dict(technique=E2 + '; 15-line interpreter of the documented order producing result, exception type and call log',
        text='Full product of __conform__ behaviours x provided x hook lists x alternate forms x custom __adapt__ (own, inherited, inherited next to another interfacemethod, overriding), plus registry adapter_hook cases.',
        note='Adaptees: instances, instances without __dict__, class objects (metaclass / classmethod / plain-function __conform__); hooks that uninstall hooks before answering; an overridden providedBy.', ref='3/C14'),
    'C15': dict(technique=E2 + ' plus E1 rebasing histories with accessors called before/between/after',
        text='Every interface DAG up to 4 (thorough 5) nodes x every subset of defining nodes (None-valued tags included); rebasing histories of depth <= 2 incl. twin swaps; observers that look at / fail inside the change notification.',
        note='One attribute name, one tag, one invariant per node. One recorded known finding (a twin of a live dependent misses change notifications).', ref='3/C15'),
    'C16': dict(technique=E1 + '; model of live registrations, fresh registries populated from the model, exact event sequences',
        text='All histories of the eight register/unregister methods, re-initialisation and rebuild up to the depth with equal/identical, hashable/unhashable components, each plan also with every listing and query after every call (warm caches).',
        note='Events captured by rebinding zope.interface.registry.notify (zope.event is absent in the image).', ref='3/C16'),
    'C17': dict(technique=E2 + '; semantic oracle: inspect.signature(impl).bind over every call shape the interface signature admits',
        text='All pairs of interface/implementation signatures in the grid x 10 candidate kinds (functions on instances, methods, classes, own and inherited staticmethods, instances taken through *args, descriptions of a Method subclass or named differently from their key); all subsets of 8 defects x tentative x verifyObject/verifyClass; the same function object verified in two roles in either order.',
        note='Grid: required 0-2 x optional 0-2 x *args x **kw (thorough 0-3).', ref='3/C17'),
    'C18': dict(technique=E2 + '; oracle: inspect.signature',
        text='Every signature within the parameter-count bounds described through fromFunction (also with imlevel=1, as verifyClass does), fromMethod, an interface body and ABCInterfaceClass.',
        note='<= 2 (thorough 3) parameters of each kind; default values of several types; defaulted self; ABC methods without explicit self.', ref='3/C18'),
    'C19': dict(technique='exhaustive enumeration of declaration histories before and after the first super query on real class hierarchies; model of C01 restricted to the remainder of the MRO; both implementations',
        text='Every class shape x every sequence of 2 (thorough 3) declaration operations before the first super query x every operation after it x every (C, ob) along the MRO x 5 adaptation entry points.',
        note='Shapes: chain, diamond, mixin, diamond with mixin, two leaves sharing (C, next class), builtin type in the MRO tail; objects also carry an instance-level declaration; a second pass asks the less derived class first, on bare instances, starting with the proxy of a middle class.', ref='3/C19'),
    'C20': dict(technique=E2 + '; ordered-set model',
        text='Every argument list up to length 3 (thorough 4) in 9 nesting variants, every pair of declarations under + - in, class and instance specifications, and the users noLongerProvides / alsoProvides (against its documented equivalent on a twin object) / directlyProvidedBy; bare interfaces and class specifications as right operands of +.',
        note='Relative order among the right operand\'s own new interfaces is not constrained (not stated).', ref='3/C20'),
}


def main():
    checks = []
    na = []
    for i in range(1, 21):
        pid = 'C%02d' % i
        c = CHECKS.get(pid)
        if not c or not os.path.exists(os.path.join(V, 'vlib', 'props', pid.lower() + '.py')):
            na.append(dict(property_id=pid, reason='check not built yet in this round (design in DESIGN.md section 3/%s); model checking applies' % pid))
            continue
        checks.append(dict(
            property_id=pid,
            quick_cmd='./check %s --tier quick' % pid,
            thorough_cmd='./check %s --tier thorough' % pid,
            evidence_file='evidence/%s.json' % pid,
            replay_cmd_template='./check %s --replay {path}' % pid,
            engine='vlib',
            level_claimed=dict(category=c.get('category', MC), text=c['text'],
                               design_ref='DESIGN.md section ' + c['ref']),
            level_note=c['note'],
            technique=c['technique']))
    m = dict(
        version=1,
        setup_cmd='./check --setup',
        hooks=dict(
            guard='ZOPE_INTERFACE_VERIF',
            enable='no hooks are needed: checks stage /repo\'s working tree (Python files + freshly compiled C accelerator) under /verif/.stage and observe it through the public API, subclassing, sys.settrace, sys.getrefcount and gc.get_referents',
            baseline_off_cmd='./baseline_off.sh',
            source_commits=[],
            add_only=True),
        engines=[dict(name='vlib', path='vlib',
                      serves_properties=[c['property_id'] for c in checks],
                      kind_free_text='hand-written explicit-state explorers in Python driving the real zope.interface objects: E1 history BFS, E2 bounded-exhaustive input enumeration, E3 lock-step C/Python differential, E4 callback injector + controlled thread scheduler')],
        checks=checks,
        not_applicable=na,
        notes='See DESIGN.md. KNOWN_FINDINGS.txt lists repaired defects (fixed:) and recorded ones (known:).')
    with open(os.path.join(V, 'MANIFEST.json'), 'w') as f:
        json.dump(m, f, indent=1)
        f.write('\n')
    try:
        import jsonschema
        jsonschema.validate(m, json.load(open('/root/.vp/MANIFEST.schema.json')))
        print('MANIFEST.json valid: %d checks, %d not_applicable' % (len(checks), len(na)))
    except ImportError:
        print('written (jsonschema not available to validate)')


if __name__ == '__main__':
    main()
