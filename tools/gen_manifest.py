#!/usr/bin/env python3
"""Regenerates /verif/MANIFEST.json from the table below (and validates it)."""
import json
import os

V = os.path.dirname(os.path.dirname(os.path.abspath(__file__)))

MC = 'model_checking'
CHECKS = {
    'C01': dict(
        technique='explicit-state BFS over declaration histories on the real objects, de-duplicated on model + hidden implementation state, oracle = two reference models (L subset reported subset U) in every state; both implementations',
        text='All histories of declaration calls / queries / subclass and instance creation / object death up to the depth (quick: depth 3 + one more level on a reduced alphabet; thorough: depth 4 + 1) over a class tree and a diamond with an undeclared mixin are executed on fresh real classes; in every reached state every object and class is queried through all four query forms and compared with the reference models.',
        note='Bounded: 3 interfaces, 3-5 classes, 4-6 instances, depth as reported in the evidence. Trusts the 100-line reference model and CPython.',
        ref='3/C01'),
}


def main():
    checks = []
    na = []
    for i in range(1, 21):
        pid = 'C%02d' % i
        c = CHECKS.get(pid)
        if not c or not os.path.exists(os.path.join(V, 'vlib', 'props', pid.lower() + '.py')):
            na.append(dict(property_id=pid, reason='check not built yet in this round (design in DESIGN.md section 3/%s); model checking applies' % pid))
            continue
        checks.append(dict(
            property_id=pid,
            quick_cmd='./check %s --tier quick' % pid,
            thorough_cmd='./check %s --tier thorough' % pid,
            evidence_file='evidence/%s.json' % pid,
            replay_cmd_template='./check %s --replay {path}' % pid,
            engine='vlib',
            level_claimed=dict(category=c.get('category', MC), text=c['text'],
                               design_ref='DESIGN.md section ' + c['ref']),
            level_note=c['note'],
            technique=c['technique']))
    m = dict(
        version=1,
        setup_cmd='./check --setup',
        hooks=dict(
            guard='ZOPE_INTERFACE_VERIF',
            enable='no hooks are needed: checks stage /repo\'s working tree (Python files + freshly compiled C accelerator) under /verif/.stage and observe it through the public API, subclassing, sys.settrace, sys.getrefcount and gc.get_referents',
            baseline_off_cmd='./baseline_off.sh',
            source_commits=[],
            add_only=True),
        engines=[dict(name='vlib', path='vlib',
                      serves_properties=[c['property_id'] for c in checks],
                      kind_free_text='hand-written explicit-state explorers in Python driving the real zope.interface objects: E1 history BFS, E2 bounded-exhaustive input enumeration, E3 lock-step C/Python differential, E4 callback injector + controlled thread scheduler')],
        checks=checks,
        not_applicable=na,
        notes='See DESIGN.md. KNOWN_FINDINGS.txt lists repaired defects (fixed:) and recorded ones (known:).')
    with open(os.path.join(V, 'MANIFEST.json'), 'w') as f:
        json.dump(m, f, indent=1)
        f.write('\n')
    try:
        import jsonschema
        jsonschema.validate(m, json.load(open('/root/.vp/MANIFEST.schema.json')))
        print('MANIFEST.json valid: %d checks, %d not_applicable' % (len(checks), len(na)))
    except ImportError:
        print('written (jsonschema not available to validate)')


if __name__ == '__main__':
    main()
