"""Worker process: reads pickled (module, function, argument) frames on stdin,
answers pickled results on a private copy of stdout."""
import importlib
import os
import pickle
import struct
import sys
import traceback


def _read(f):
    hdr = f.read(8)
    if len(hdr) < 8:
        return None
    (n,) = struct.unpack('<Q', hdr)
    return pickle.loads(f.read(n))


def _write(f, obj):
    b = pickle.dumps(obj, protocol=4)
    f.write(struct.pack('<Q', len(b)))
    f.write(b)
    f.flush()


def main():
    out = os.fdopen(os.dup(1), 'wb')
    os.dup2(2, 1)
    sys.stdout = sys.stderr
    inp = sys.stdin.buffer
    from vlib import boot
    boot.worker_init(os.environ['VERIF_STAGE'])
    _write(out, ('ready', os.getpid()))
    while True:
        msg = _read(inp)
        if msg is None:
            break
        mod, fn, arg = msg
        try:
            m = importlib.import_module('vlib.props.' + mod)
            res = getattr(m, fn)(arg)
            _write(out, ('ok', res))
        except BaseException as e:
            # did the exception pass through the staged library?  Then it is
            # behaviour of zope.interface the oracle did not expect (reported
            # as a violation after confirmation), not a bug of the checker.
            stage = os.environ['VERIF_STAGE']
            in_lib = any(fr.filename.startswith(stage)
                         for fr in traceback.extract_tb(e.__traceback__))
            _write(out, ('err', traceback.format_exc(), in_lib, type(e).__name__))


if __name__ == '__main__':
    main()
