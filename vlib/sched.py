"""E4 — controlled thread scheduler.

Real threads, exactly one runnable at a time. Every 'call', 'line' and
'return' trace event in the watched source files is a scheduling point at
which the running thread itself decides (from the replayed prefix, default:
keep running) who runs next; a hand-off happens only on an actual switch.
C code between two events is atomic, which is what the GIL guarantees for
code that does not call back into the interpreter.

Exploration is depth-first over choice sequences with a preemption bound
(switching away from a thread that could have continued costs 1).
"""
import sys
import threading


class ReplayDivergence(Exception):
    pass


# code names whose frames are traced per bytecode instead of per line (a
# read-modify-write such as ``self._generation += 1`` is one line but several
# interruptible instructions)
OPCODE_FUNCS = set()


class Run:
    def __init__(self, bodies, prefix, watch):
        self.bodies = bodies
        self.prefix = prefix
        self.watch = watch
        self.n = len(bodies)
        self.sem = [threading.Semaphore(0) for _ in range(self.n)]
        self.done_evt = threading.Semaphore(0)
        self.alive = [True] * self.n
        self.points = []
        self.choices = []
        self.order = []          # (thread id, 'start'|'end') in real-time order
        self.errors = [None] * self.n
        self.results = [None] * self.n
        self.diverged = None

    def _pick(self, cur):
        enabled = [i for i in range(self.n) if self.alive[i]]
        if not enabled:
            return None
        cur_en = cur is not None and self.alive[cur]
        if cur_en:
            enabled = [cur] + [i for i in enabled if i != cur]
        k = len(self.choices)
        c = self.prefix[k] if k < len(self.prefix) else 0
        if c >= len(enabled):
            self.diverged = (k, c, len(enabled))
            c = 0
        self.points.append((len(enabled), cur_en))
        self.choices.append(c)
        return enabled[c]

    def _point(self, tid):
        nxt = self._pick(tid)
        if nxt != tid:
            self.sem[nxt].release()
            self.sem[tid].acquire()

    def _trace(self, tid):
        watch = self.watch
        point = self._point

        def local(frame, event, arg):
            if event == 'line' or event == 'return' or event == 'opcode':
                point(tid)
            return local

        def glob(frame, event, arg):
            if frame.f_code.co_filename in watch:
                if frame.f_code.co_name in OPCODE_FUNCS:
                    frame.f_trace_opcodes = True
                point(tid)
                return local
            return None
        return glob

    def _worker(self, tid):
        self.sem[tid].acquire()
        self.order.append((tid, 'start'))
        sys.settrace(self._trace(tid))
        try:
            self.results[tid] = self.bodies[tid]()
        except BaseException as e:
            self.errors[tid] = e
        finally:
            sys.settrace(None)
            self.order.append((tid, 'end'))
            self.alive[tid] = False
            nxt = self._pick(tid)
            if nxt is None:
                self.done_evt.release()
            else:
                self.sem[nxt].release()

    def execute(self):
        ths = [threading.Thread(target=self._worker, args=(i,), daemon=True)
               for i in range(self.n)]
        for t in ths:
            t.start()
        first = self._pick(None)
        self.sem[first].release()
        self.done_evt.acquire()
        for t in ths:
            t.join()
        if self.diverged:
            raise ReplayDivergence('replayed prefix diverged at point %d: choice %d of %d'
                                   % self.diverged)
        return self


def explore(make, watch, bound, check, journal=None, max_schedules=None, shard=None,
            collect=False, stack0=None, root_only=False):
    """make() -> (bodies, ctx); check(run, ctx) -> (outcome label, violation or None).
    Returns stats; stops at the first violation."""
    st = {'schedules': 0, 'maxpoints': 0, 'outcomes': {}, 'violation': None,
          'capped': False, 'violations': []}
    stack = [list(p) for p in stack0] if stack0 is not None else [[]]
    seen_kinds = set()
    st['children'] = []
    while stack:
        prefix = stack.pop()
        if journal is not None:
            journal(prefix)
        bodies, ctx = make()
        x = Run(bodies, prefix, watch).execute()
        root = not prefix
        # with sharding, the default (root) execution is counted by shard 0 only
        mine = not (root and shard and shard[0] != 0)
        if mine:
            st['schedules'] += 1
            st['maxpoints'] = max(st['maxpoints'], len(x.points))
        outcome, viol = check(x, ctx)
        if mine:
            st['outcomes'][outcome] = st['outcomes'].get(outcome, 0) + 1
        if viol and mine:
            v = dict(schedule=list(x.choices), violation=viol)
            if st['violation'] is None:
                st['violation'] = v
            if not collect:
                return st
            if viol[0] not in seen_kinds:
                seen_kinds.add(viol[0])
                st['violations'].append(v)
        pre = 0
        for i, ((nen, cur_en), c) in enumerate(zip(x.points, x.choices)):
            if i >= len(prefix):
                if root and shard and i % shard[1] != shard[0]:
                    if cur_en and c != 0:
                        pre += 1
                    continue
                cost = pre + (1 if cur_en else 0)
                if cost <= bound:
                    for alt in range(1, nen):
                        if root_only:
                            st['children'].append(x.choices[:i] + [alt])
                        else:
                            stack.append(x.choices[:i] + [alt])
            if cur_en and c != 0:
                pre += 1
        if max_schedules and st['schedules'] >= max_schedules:
            st['capped'] = True
            return st
    return st


def replay_schedule(make, watch, schedule, check):
    bodies, ctx = make()
    x = Run(bodies, list(schedule), watch).execute()
    return check(x, ctx)
