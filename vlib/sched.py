"""E4 — controlled thread scheduler.

Real threads, exactly one runnable at a time. Every 'call', 'line' and
'return' trace event in the watched source files is a scheduling point at
which the running thread itself decides (from the replayed prefix, default:
keep running) who runs next; a hand-off happens only on an actual switch.
C code between two events is atomic, which is what the GIL guarantees for
code that does not call back into the interpreter.  Locks of the library are
replaced by SchedLock objects (adopt_locks): a thread waiting for one is not
enabled; an execution that does not end is reported (Hang), never waited for.

Exploration is depth-first over choice sequences with a preemption bound
(switching away from a thread that could have continued costs 1).
"""
import sys
import threading


class ReplayDivergence(Exception):
    pass


# code names whose frames are traced per bytecode instead of per line (a
# read-modify-write such as ``self._generation += 1`` is one line but several
# interruptible instructions)
OPCODE_FUNCS = set()
HANG_SECONDS = 120


class Deadlock(Exception):
    """Every live thread waits for a lock another live thread holds."""


class Hang(Exception):
    """An execution did not finish: a thread blocks on something the
    scheduler does not control (a real lock, a condition, I/O)."""


CURRENT = [None]            # the Run that is executing, if any
_TLS = threading.local()    # .tid = index of the scheduled thread


class SchedLock:
    """Stand-in for threading.Lock / threading.RLock inside the library while
    it runs under the scheduler: a thread that finds the lock taken is not
    *enabled* until the owner releases it, instead of blocking for real (which
    would stop the one thread that is allowed to run). Outside a scheduled
    run (worlds are built and inspected by a single thread; the free-running
    supplementary pass uses unscheduled threads) it is a real lock."""

    def __init__(self, reentrant=True):
        self.reentrant = reentrant
        self.owner = None
        self.count = 0
        self._real = threading.RLock() if reentrant else threading.Lock()

    def _me(self):
        run = CURRENT[0]
        tid = getattr(_TLS, 'tid', None)
        return (run, tid) if run is not None and tid is not None else (None, 'main')

    def acquire(self, blocking=True, timeout=-1):
        run, tid = self._me()
        if run is None:
            return self._real.acquire(blocking, timeout)
        if self.owner == tid and self.reentrant:
            self.count += 1
            return True
        while self.owner is not None:
            if not blocking:
                return False
            run.wait_for(tid, self)
        self.owner = tid
        self.count = 1
        return True

    def release(self):
        if self._me()[0] is None:
            return self._real.release()
        if self.count <= 0:
            raise RuntimeError('release of an unlocked lock')
        self.count -= 1
        if self.count == 0:
            self.owner = None

    __enter__ = acquire

    def __exit__(self, *a):
        self.release()

    def locked(self):
        return self.owner is not None


class _ThreadingShim:
    """What the library sees as the ``threading`` module while it is checked
    under the scheduler: locks are SchedLocks, everything else is real."""

    def __init__(self, real):
        self._real = real

    def Lock(self):
        return SchedLock(reentrant=False)

    def RLock(self):
        return SchedLock(reentrant=True)

    def __getattr__(self, name):
        return getattr(self._real, name)


def adopt_locks(*modules):
    """Replace the locks the given (already imported) library modules hold as
    module globals, and the ``threading`` module they would create further
    locks with. Returns the names replaced (for the evidence)."""
    real_kinds = (type(threading.Lock()), type(threading.RLock()))
    done = []
    for mod in modules:
        for name, val in list(vars(mod).items()):
            if isinstance(val, real_kinds):
                setattr(mod, name, SchedLock(reentrant=isinstance(val, real_kinds[1])))
                done.append('%s.%s' % (mod.__name__, name))
            elif val is threading:
                setattr(mod, name, _ThreadingShim(threading))
    return done


class Run:
    def __init__(self, bodies, prefix, watch):
        self.bodies = bodies
        self.prefix = prefix
        self.watch = watch
        self.n = len(bodies)
        self.sem = [threading.Semaphore(0) for _ in range(self.n)]
        self.done_evt = threading.Semaphore(0)
        self.alive = [True] * self.n
        self.points = []
        self.choices = []
        self.order = []          # (thread id, 'start'|'end') in real-time order
        self.errors = [None] * self.n
        self.results = [None] * self.n
        self.diverged = None
        self.waiting = [None] * self.n     # the SchedLock a thread is waiting for
        self.lock_waits = 0

    def _enabled(self, i):
        return self.alive[i] and (self.waiting[i] is None or self.waiting[i].owner is None)

    def wait_for(self, tid, lock):
        """Called by SchedLock.acquire in thread *tid*: not enabled until the
        owner releases the lock; someone else runs meanwhile."""
        self.waiting[tid] = lock
        self.lock_waits += 1
        try:
            if not any(self._enabled(i) for i in range(self.n)):
                raise Deadlock('thread %d waits for a lock held by thread %r and nobody can run'
                               % (tid, lock.owner))
            self._point(tid)
        finally:
            self.waiting[tid] = None

    def _pick(self, cur):
        enabled = [i for i in range(self.n) if self._enabled(i)]
        if not enabled:
            return None
        cur_en = cur is not None and self._enabled(cur)
        if cur_en:
            enabled = [cur] + [i for i in enabled if i != cur]
        k = len(self.choices)
        c = self.prefix[k] if k < len(self.prefix) else 0
        if c >= len(enabled):
            self.diverged = (k, c, len(enabled))
            c = 0
        self.points.append((len(enabled), cur_en))
        self.choices.append(c)
        return enabled[c]

    def _point(self, tid):
        nxt = self._pick(tid)
        if nxt != tid:
            self.sem[nxt].release()
            self.sem[tid].acquire()

    def _trace(self, tid):
        watch = self.watch
        point = self._point

        def local(frame, event, arg):
            if event == 'line' or event == 'return' or event == 'opcode':
                point(tid)
            return local

        def glob(frame, event, arg):
            if frame.f_code.co_filename in watch:
                if frame.f_code.co_name in OPCODE_FUNCS:
                    frame.f_trace_opcodes = True
                point(tid)
                return local
            return None
        return glob

    def _worker(self, tid):
        _TLS.tid = tid
        self.sem[tid].acquire()
        self.order.append((tid, 'start'))
        sys.settrace(self._trace(tid))
        try:
            self.results[tid] = self.bodies[tid]()
        except BaseException as e:
            self.errors[tid] = e
        finally:
            sys.settrace(None)
            self.order.append((tid, 'end'))
            self.alive[tid] = False
            nxt = self._pick(tid)
            if nxt is None:
                # nobody can run: everybody finished, or the rest waits for a
                # lock this thread died holding
                self.stuck = [i for i in range(self.n) if self.alive[i]]
                self.done_evt.release()
            else:
                self.sem[nxt].release()

    def execute(self):
        ths = [threading.Thread(target=self._worker, args=(i,), daemon=True)
               for i in range(self.n)]
        for t in ths:
            t.start()
        self.stuck = []
        CURRENT[0] = self
        try:
            first = self._pick(None)
            self.sem[first].release()
            if not self.done_evt.acquire(timeout=HANG_SECONDS):
                raise Hang('an execution did not finish within %d s (schedule so far: %r)'
                           % (HANG_SECONDS, self.choices[:200]))
            if self.stuck:
                raise Deadlock('threads %r wait for a lock whose owner ended' % (self.stuck,))
            for t in ths:
                t.join()
        finally:
            CURRENT[0] = None
        if self.diverged:
            raise ReplayDivergence('replayed prefix diverged at point %d: choice %d of %d'
                                   % self.diverged)
        return self


def sparse(choices):
    """A choice sequence is almost all zeros (keep running): (length, ((position,
    choice), ...)) of the non-zero entries is what travels between processes."""
    return (len(choices), tuple((k, c) for k, c in enumerate(choices) if c))


def dense(p):
    if isinstance(p, tuple) and len(p) == 2 and isinstance(p[0], int) and isinstance(p[1], tuple):
        out = [0] * p[0]
        for k, c in p[1]:
            out[k] = c
        return out
    return list(p)


def explore(make, watch, bound, check, journal=None, max_schedules=None, shard=None,
            collect=False, stack0=None, root_only=False):
    """make() -> (bodies, ctx); check(run, ctx) -> (outcome label, violation or None).
    Returns stats; stops at the first violation."""
    st = {'schedules': 0, 'maxpoints': 0, 'outcomes': {}, 'violation': None,
          'capped': False, 'violations': [], 'lock_waits': 0}
    stack = [dense(p) for p in stack0] if stack0 is not None else [[]]
    seen_kinds = set()
    st['children'] = []
    while stack:
        prefix = stack.pop()
        if journal is not None:
            journal(prefix)
        bodies, ctx = make()
        x = Run(bodies, prefix, watch).execute()
        root = not prefix
        # with sharding, the default (root) execution is counted by shard 0 only
        mine = not (root and shard and shard[0] != 0)
        if mine:
            st['schedules'] += 1
            st['maxpoints'] = max(st['maxpoints'], len(x.points))
            st['lock_waits'] += 1 if x.lock_waits else 0
        outcome, viol = check(x, ctx)
        if mine:
            st['outcomes'][outcome] = st['outcomes'].get(outcome, 0) + 1
        if viol and mine:
            v = dict(schedule=list(x.choices), violation=viol)
            if st['violation'] is None:
                st['violation'] = v
            if not collect:
                return st
            if viol[0] not in seen_kinds:
                seen_kinds.add(viol[0])
                st['violations'].append(v)
        pre = 0
        for i, ((nen, cur_en), c) in enumerate(zip(x.points, x.choices)):
            if i >= len(prefix):
                if root and shard and i % shard[1] != shard[0]:
                    if cur_en and c != 0:
                        pre += 1
                    continue
                cost = pre + (1 if cur_en else 0)
                if cost <= bound:
                    for alt in range(1, nen):
                        if root_only:
                            st['children'].append(sparse(x.choices[:i] + [alt]))
                        else:
                            stack.append(x.choices[:i] + [alt])
            if cur_en and c != 0:
                pre += 1
        nruns = st.get('_runs', 0) + 1
        st['_runs'] = nruns
        if nruns % 100 == 0:
            # worlds are cyclic garbage and the workers run with the collector
            # off (its timing must not decide when a value dies): collect
            # between two executions, when no scheduled thread exists
            import gc
            gc.collect()
        if max_schedules and st['schedules'] >= max_schedules:
            st['capped'] = True
            return st
    st.pop('_runs', None)
    return st


def replay_schedule(make, watch, schedule, check):
    bodies, ctx = make()
    x = Run(bodies, list(schedule), watch).execute()
    return check(x, ctx)
