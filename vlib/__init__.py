"""Model-checking machinery for zope.interface (see /verif/DESIGN.md)."""
