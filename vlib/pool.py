"""A small process pool with an explicit environment per pool (the
implementation of zope.interface is chosen at import time by PURE_PYTHON, and
hash randomisation by PYTHONHASHSEED, so both are per-process settings)."""
import collections
import os
import queue
import subprocess
import threading

from .stage import PYTHON, VERIF
from .worker import _read, _write

NPROC = int(os.environ.get('VERIF_JOBS', '0')) or min(16, os.cpu_count() or 4)


class InternalError(Exception):
    """The checker itself is broken (exit 2); never a property violation."""


class LibraryRaised(InternalError):
    """An exception escaped from the staged zope.interface through a check's
    oracle code: the library does something the unchanged tree never does on
    the explored space."""

    def __init__(self, mod, fn, arg, tb, typ, env):
        InternalError.__init__(self, 'library raised %s in %s.%s' % (typ, mod, fn))
        self.mod, self.fn, self.arg, self.tb, self.typ, self.env = mod, fn, arg, tb, typ, env


class WorkerCrashed(InternalError):
    """The interpreter running the staged library died (signal, abort) while
    evaluating one argument of a check."""

    def __init__(self, mod, fn, arg, crash, env):
        InternalError.__init__(self, 'worker crashed in %s.%s: %r' % (mod, fn, crash))
        self.mod, self.fn, self.arg, self.crash, self.env = mod, fn, arg, crash, env


class Crash:
    """Result placeholder: the worker died while evaluating this argument."""

    def __init__(self, returncode, stderr_tail=''):
        self.returncode = returncode
        self.stderr_tail = stderr_tail

    def __repr__(self):
        return 'Crash(returncode=%r)' % (self.returncode,)


class _Proc:
    def __init__(self, env, capture_stderr=False):
        self.env = env
        self.capture = capture_stderr
        self.start()

    def start(self):
        self.p = subprocess.Popen(
            [PYTHON, '-X', 'faulthandler', '-m', 'vlib.worker'],
            stdin=subprocess.PIPE, stdout=subprocess.PIPE,
            stderr=subprocess.PIPE if self.capture else None,
            env=self.env, cwd=VERIF)
        self.tail = collections.deque(maxlen=400)
        if self.capture:
            # drain stderr continuously: a worker that writes more than a pipe
            # buffer (warnings, faulthandler dumps) must never block on it
            def drain(stream, tail):
                try:
                    for line in iter(stream.readline, b''):
                        tail.append(line)
                except Exception:
                    pass
            self._drain = threading.Thread(target=drain, args=(self.p.stderr, self.tail),
                                           daemon=True)
            self._drain.start()
        r = _read(self.p.stdout)
        if not r or r[0] != 'ready':
            raise InternalError('worker did not start: %r %s' % (r, self._stderr_tail()[-2000:]))

    def _stderr_tail(self):
        if not self.capture:
            return ''
        try:
            self._drain.join(timeout=2)
        except Exception:
            pass
        return b''.join(self.tail).decode(errors='replace')

    def call(self, mod, fn, arg):
        try:
            _write(self.p.stdin, (mod, fn, arg))
            r = _read(self.p.stdout)
        except (BrokenPipeError, OSError):
            r = None
        if r is None:
            rc = self.p.wait()
            tail = self._stderr_tail()[-3000:]
            self.start()
            return Crash(rc, tail)
        if r[0] == 'err' and len(r) > 2 and r[2]:
            raise LibraryRaised(mod, fn, arg, r[1], r[3], self.env)
        if r[0] == 'err':
            raise InternalError('worker raised in %s.%s:\n%s' % (mod, fn, r[1]))
        return r[1]

    def close(self):
        try:
            self.p.stdin.close()
        except Exception:
            pass
        try:
            self.p.wait(timeout=10)
        except Exception:
            self.p.kill()


def make_env(stage, impl, hashseed='0', extra=None):
    env = dict(os.environ)
    env['VERIF_STAGE'] = stage
    env['PURE_PYTHON'] = '1' if impl == 'py' else '0'
    env['PYTHONHASHSEED'] = str(hashseed)
    env['PYTHONPATH'] = VERIF
    env['PYTHONDONTWRITEBYTECODE'] = '1'
    for k in ('ZOPE_INTERFACE_STRICT_IRO', 'ZOPE_INTERFACE_USE_LEGACY_IRO',
              'ZOPE_INTERFACE_LOG_CHANGED_IRO', 'ZOPE_INTERFACE_WARN_BAD_IRO',
              'ZOPE_INTERFACE_TRACK_BAD_IRO'):
        env.pop(k, None)
    if extra:
        env.update(extra)
    return env


class Pool:
    def __init__(self, stage, impl, n=None, hashseed='0', extra_env=None,
                 capture_stderr=False):
        self.impl = impl
        self.env = make_env(stage, impl, hashseed, extra_env)
        self.n = n or NPROC
        self.capture = capture_stderr
        self.procs = []

    def _ensure(self, k):
        if len(self.procs) < k:
            new = [None] * (k - len(self.procs))

            def mk(i):
                new[i] = _Proc(self.env, self.capture)
            ts = [threading.Thread(target=mk, args=(i,)) for i in range(len(new))]
            for t in ts:
                t.start()
            for t in ts:
                t.join()
            if any(p is None for p in new):
                raise InternalError('could not start workers')
            self.procs.extend(new)

    def map(self, mod, fn, args, order=None):
        """Evaluate fn(arg) for every arg; results are returned in the order
        of *args* whatever the dispatch order (``order`` = dispatch
        permutation) and the number of workers."""
        args = list(args)
        if not args:
            return []
        k = min(self.n, len(args))
        self._ensure(k)
        q = queue.Queue()
        for i in (order if order is not None else range(len(args))):
            q.put(i)
        out = [None] * len(args)
        errs = []

        def run(proc):
            while not errs:
                try:
                    i = q.get_nowait()
                except queue.Empty:
                    return
                try:
                    out[i] = proc.call(mod, fn, args[i])
                except BaseException as e:
                    errs.append(e)
                    return
        ts = [threading.Thread(target=run, args=(p,)) for p in self.procs[:k]]
        for t in ts:
            t.start()
        for t in ts:
            t.join()
        if errs:
            raise errs[0]
        return out

    def call(self, mod, fn, arg):
        self._ensure(1)
        return self.procs[0].call(mod, fn, arg)

    def close(self):
        for p in self.procs:
            p.close()
        self.procs = []
