"""Command line front end, run context, evidence, replays, known findings."""
import argparse
import collections
import hashlib
import importlib
import json
import os
import random
import sys
import time

from . import stage as stage_mod
import base64
import pickle

from .pool import Pool, Crash, InternalError, LibraryRaised, WorkerCrashed, NPROC

VERIF = stage_mod.VERIF
PROPS = ['C%02d' % i for i in range(1, 21)]
KNOWN_FILE = os.path.join(VERIF, 'KNOWN_FINDINGS.txt')
# Evidence and replay files go to /verif unless VERIF_OUT redirects them (used
# only when a check is pointed at a scratch tree with VERIF_REPO, so that such
# a run never overwrites the evidence of /repo itself).
OUT = os.environ.get('VERIF_OUT') or VERIF


def load_known():
    """Lines ``known: property=<id> sig=<signature> <what fails>`` suppress
    exactly the violations carrying that signature; ``fixed:`` lines are
    documentation and suppress nothing."""
    known = collections.defaultdict(dict)
    if os.path.exists(KNOWN_FILE):
        for line in open(KNOWN_FILE):
            line = line.strip()
            if not line.startswith('known:'):
                continue
            parts = line.split(None, 3)
            pid = parts[1].split('=', 1)[1]
            sig = parts[2].split('=', 1)[1]
            known[pid][sig] = parts[3] if len(parts) > 3 else ''
    return known


class Ctx:
    def __init__(self, pid, tier, seed, stage):
        self.pid = pid
        self.mod = pid.lower()
        self.tier = tier
        self.seed = seed
        self.stage = stage
        self.rng = random.Random(seed)
        self.count = collections.Counter()
        self.info = {}
        self.samples = []
        self.assumptions = []
        self.viol = []
        self._pools = {}
        self.t0 = time.time()
        self.caps = []

    # -- processes ---------------------------------------------------------
    def pool(self, impl, hashseed='0', extra_env=None, capture_stderr=False, n=None):
        key = (impl, str(hashseed), tuple(sorted((extra_env or {}).items())),
               capture_stderr)
        p = self._pools.get(key)
        if p is None:
            p = self._pools[key] = Pool(self.stage, impl, n=n, hashseed=hashseed,
                                        extra_env=extra_env,
                                        capture_stderr=capture_stderr)
        return p

    def map(self, impl, fn, args, mod=None, **kw):
        args = list(args)
        order = list(range(len(args)))
        # VERIF_SEED only rotates the dispatch order; results are merged in
        # index order, so the verdict and the counts do not depend on it.
        self.rng.shuffle(order)
        pool = self.pool(impl, **kw)
        res = pool.map(mod or self.mod, fn, args, order=order)
        for a, r in zip(args, res):
            if isinstance(r, Crash):
                # the interpreter died under the library: a violation in its own
                # right (confirmed from a fresh process like every other one)
                raise WorkerCrashed(mod or self.mod, fn, a, r, pool.env)
            if isinstance(r, dict) and r.get('viol'):
                # remember which worker call reported it: a violation that only
                # shows after the earlier cases of the same call (state the
                # library carried over between cases) is confirmed by
                # re-issuing the whole call in a fresh process
                for v in r['viol']:
                    if isinstance(v, dict):
                        v.setdefault('_origin', (mod or self.mod, fn, a))
        return res

    def close(self):
        for p in self._pools.values():
            p.close()
        self._pools = {}

    # -- bookkeeping -------------------------------------------------------
    def add(self, **kw):
        for k, v in kw.items():
            self.count[k] += v

    def merge_counts(self, d):
        for k, v in d.items():
            self.count[k] += v

    def sample(self, x, limit=6):
        if len(self.samples) < limit:
            self.samples.append(x)

    def violation(self, v):
        """v: dict(impl=..., sig=..., case=<json-able>, detail=...)"""
        self.viol.append(v)

    def violations(self, vs):
        self.viol.extend(vs)

    def unknown_viol(self):
        """Violations that are not recorded known findings: only these stop an
        exploration early (a known finding must never shorten what is explored)."""
        known = load_known().get(self.pid, {})
        return [v for v in self.viol if v.get('sig') not in known]

    def cap(self, text):
        self.caps.append(text)

    def log(self, *a):
        print('[%s %6.1fs]' % (self.pid, time.time() - self.t0), *a,
              file=sys.stderr, flush=True)


def chunks(seq, n):
    seq = list(seq)
    return [seq[i:i + n] for i in range(0, len(seq), n)]


def _digest(obj):
    return hashlib.sha256(json.dumps(obj, sort_keys=True, default=repr).encode()).hexdigest()[:16]


def confirm(ctx, v):
    """Re-run a violating case once in a fresh process; it must reproduce."""
    impl = v.get('impl', 'c')
    env = v.get('env') or None
    p = Pool(ctx.stage, impl, n=1, hashseed=v.get('hashseed', '0'),
             extra_env=env, capture_stderr=True)
    try:
        r = _replay_call(p, ctx.mod, v['case'])
    finally:
        p.close()
    return r


def _replay_call(p, mod, case):
    """Replay one case in pool *p*.  A case {'raw_call': ...} re-issues the
    recorded worker call and holds iff the library raises again."""
    if isinstance(case, dict) and 'raw_call' in case:
        rc = case['raw_call']
        arg = pickle.loads(base64.b64decode(rc['arg_pickle_b64']))
        try:
            r = p.call(rc.get('mod') or mod, rc['fn'], arg)
        except LibraryRaised as e:
            return dict(library_raised=e.typ, traceback_tail=e.tb[-1500:])
        if isinstance(r, Crash):
            return dict(interpreter_crashed=r.returncode, stderr_tail=r.stderr_tail[-1500:])
        if case.get('expect_sig') and isinstance(r, dict):
            for v in r.get('viol') or ():
                if v.get('sig') == case['expect_sig']:
                    return dict(reported_again=v.get('detail'))
        return None
    return p.call(mod, 'replay', case)


def worker_crashed(ctx, e):
    """The interpreter died while a worker evaluated part of the explored space."""
    impl = 'py' if e.env.get('PURE_PYTHON') == '1' else 'c'
    extra = {k: v for k, v in e.env.items() if k.startswith('ZOPE_INTERFACE_')}
    ctx.violation(dict(
        impl=impl, env=extra or None, hashseed=e.env.get('PYTHONHASHSEED', '0'), crash=True,
        sig='%s:interpreter-crash' % ctx.pid,
        case=dict(raw_call=dict(
            fn=e.fn, arg_pickle_b64=base64.b64encode(pickle.dumps(e.arg, protocol=4)).decode())),
        detail=dict(what='the interpreter running zope.interface died while the check was exploring',
                    worker_function=e.fn, returncode=e.crash.returncode,
                    stderr_tail=e.crash.stderr_tail[-1800:])))
    ctx.cap('exploration aborted when the interpreter crashed')
    return finish(ctx, 'model_checking',
                  'aborted: the interpreter crashed inside %s.%s' % (ctx.mod, e.fn), 'n/a (aborted run)')


def library_raised(ctx, e):
    """Turn an exception that escaped from the staged library into a violation
    (confirmed from a fresh process by finish(), like every other one)."""
    impl = 'py' if e.env.get('PURE_PYTHON') == '1' else 'c'
    extra = {k: v for k, v in e.env.items() if k.startswith('ZOPE_INTERFACE_')}
    ctx.violation(dict(
        impl=impl, env=extra or None, hashseed=e.env.get('PYTHONHASHSEED', '0'),
        sig='%s:library-raised:%s' % (ctx.pid, e.typ),
        case=dict(raw_call=dict(
            fn=e.fn, arg_pickle_b64=base64.b64encode(pickle.dumps(e.arg, protocol=4)).decode())),
        detail=dict(what='an exception escaped from zope.interface while the check was '
                         'exploring; the unchanged tree never raises here',
                    worker_function=e.fn, traceback_tail=e.tb[-1800:])))
    ctx.cap('exploration aborted at the first unexpected exception from the library')
    return finish(ctx, 'model_checking',
                  'aborted: the library raised %s inside %s.%s' % (e.typ, ctx.mod, e.fn),
                  'n/a (aborted run)')


class Unconfirmed(Exception):
    pass


def _confirm_one(ctx, sig, v):
    """A violation counts only if it shows again in a fresh process, alone or
    (state carried over inside the library) together with the cases that the
    same worker call evaluated before it."""
    r = confirm(ctx, v)
    if isinstance(r, Crash):
        if not v.get('crash'):
            raise InternalError('replay of %s crashed the worker: %r' % (sig, r))
        return r
    if r:
        return r
    if v.get('_origin'):
        omod, ofn, oarg = v['_origin']
        whole = dict(raw_call=dict(mod=omod, fn=ofn, arg_pickle_b64=base64.b64encode(
            pickle.dumps(oarg, protocol=4)).decode()), expect_sig=sig, single_case=v['case'],
            note='does not show when the case runs alone in a fresh process: it needs the cases '
                 'that the same worker call evaluated before it (state carried over inside the library)')
        if confirm(ctx, dict(v, case=whole)):
            v['case'] = whole
            return True
    raise Unconfirmed('violation did not reproduce from a fresh process: %s %r' % (sig, v['case']))


def finish(ctx, level, explanation, rule, trusted=None):
    known = load_known().get(ctx.pid, {})
    # group by signature, keep the first (smallest) case per signature
    by_sig = collections.OrderedDict()
    for v in ctx.viol:
        by_sig.setdefault(v['sig'], []).append(v)
    unknown = []
    lines = []
    unconfirmed = []
    for sig, vs in by_sig.items():
        v = vs[0]
        try:
            r = _confirm_one(ctx, sig, v)
        except Unconfirmed as e:
            unconfirmed.append((sig, str(e)))
            continue
        if sig in known:
            lines.append('KNOWN-FINDING: property=%s %s (sig=%s, %d cases this run)'
                         % (ctx.pid, known[sig], sig, len(vs)))
            continue
        d = os.path.join(OUT, 'replays', ctx.pid)
        os.makedirs(d, exist_ok=True)
        path = os.path.join(d, _digest([sig, v['case']]) + '.json')
        with open(path, 'w') as f:
            json.dump({'property': ctx.pid, 'impl': v.get('impl', 'c'),
                       'env': v.get('env'), 'hashseed': v.get('hashseed', '0'),
                       'sig': sig, 'case': v['case'],
                       'detail': v.get('detail'), 'cases_with_this_signature': len(vs)},
                      f, indent=1, default=repr)
        unknown.append((sig, path, v))
    if unconfirmed and not unknown and not lines:
        # nothing that was reported holds up in a fresh process: the checker is
        # confused, not the library
        raise InternalError(unconfirmed[0][1])
    if unconfirmed:
        # some signatures are confirmed, others only showed inside the long-lived
        # worker (state left behind by earlier cases): those are not reported
        ctx.info['not_reported_because_not_reproduced_in_a_fresh_process'] = [u[0] for u in unconfirmed]
    wall = time.time() - ctx.t0
    cov = dict(ctx.info)
    cov.update({k: int(v) for k, v in ctx.count.items()})
    cov.setdefault('states', cov.get('evaluations', 0))
    cov.setdefault('transitions', cov.get('evaluations', 0))
    cov.setdefault('traces_validated_against_impl', cov.get('transitions', 0))
    cov.setdefault('evaluations', cov.get('transitions', 0))
    cov.setdefault('distinct_nontrivial', cov.get('states', 0))
    cov['rule'] = rule
    cov['explanation'] = explanation
    cov['samples'] = ctx.samples or ['(none recorded)']
    cov['exhaustive'] = not ctx.caps
    if ctx.caps:
        cov['caps_hit'] = ctx.caps
    cov['workers'] = NPROC
    if trusted:
        cov['trusted_base'] = trusted
    ev = {'property_id': ctx.pid, 'tier': ctx.tier, 'seed': ctx.seed,
          'level': level, 'coverage': cov, 'assumptions': ctx.assumptions,
          'wall_s': round(wall, 2), 'violations': len(unknown),
          'known_findings_seen': len(lines),
          'tree_digest': os.path.basename(ctx.stage)}
    os.makedirs(os.path.join(OUT, 'evidence'), exist_ok=True)
    tmp = os.path.join(OUT, 'evidence', ctx.pid + '.json.tmp%d' % os.getpid())
    with open(tmp, 'w') as f:
        json.dump(ev, f, indent=1, default=repr)
        f.write('\n')
    os.replace(tmp, os.path.join(OUT, 'evidence', ctx.pid + '.json'))
    for l in lines:
        print(l)
    for sig, path, v in unknown:
        print('VIOLATION property=%s replay=%s' % (ctx.pid, path))
        print('  impl=%s sig=%s' % (v.get('impl'), sig))
        print('  ' + str(v.get('detail'))[:1500])
    summ = {k: cov[k] for k in ('states', 'transitions', 'evaluations',
                                'distinct_nontrivial', 'exhaustive') if k in cov}
    print('%s %s tier=%s seed=%d wall=%.1fs %s' % (
        ctx.pid, 'FAIL' if unknown else 'ok', ctx.tier, ctx.seed, wall,
        json.dumps(summ)))
    return 1 if unknown else 0


def do_replay(pid, path, stage):
    with open(path) as f:
        rep = json.load(f)
    p = Pool(stage, rep.get('impl', 'c'), n=1, hashseed=rep.get('hashseed', '0'),
             extra_env=rep.get('env') or None, capture_stderr=True)
    try:
        r = _replay_call(p, pid.lower(), rep['case'])
    finally:
        p.close()
    if isinstance(r, Crash):
        print('replay crashed the interpreter: returncode=%s' % r.returncode)
        print(r.stderr_tail)
        print('VIOLATION property=%s replay=%s' % (pid, path))
        return 1
    if r:
        print(json.dumps(r, indent=1, default=repr))
        print('VIOLATION property=%s replay=%s' % (pid, path))
        return 1
    print('%s replay: property holds on this case' % pid)
    return 0


def main(argv=None):
    ap = argparse.ArgumentParser(prog='check')
    ap.add_argument('prop', nargs='?')
    ap.add_argument('--tier', default=os.environ.get('VERIF_TIER') or 'quick',
                    choices=['quick', 'thorough'])
    ap.add_argument('--replay')
    ap.add_argument('--setup', action='store_true')
    ap.add_argument('--opt', action='append', default=[],
                    help='key=value overrides for experiments')
    a = ap.parse_args(argv)
    try:
        seed = int(os.environ.get('VERIF_SEED', '0') or 0)
    except ValueError:
        seed = 0
    try:
        st = stage_mod.stage()
    except stage_mod.BuildError as e:
        print('tree does not build: %s' % e, file=sys.stderr)
        return 2
    if a.setup:
        print('stage ready: %s' % st)
        return 0
    if not a.prop or a.prop.upper() not in PROPS:
        ap.error('property id C01..C20 required')
    pid = a.prop.upper()
    if a.replay:
        return do_replay(pid, a.replay, st)
    os.environ['VERIF_STAGE'] = st
    from . import boot
    boot.bootstrap(st)          # the parent only needs plan constants
    ctx = Ctx(pid, a.tier, seed, st)
    ctx.opts = dict(o.split('=', 1) for o in a.opt)
    mod = importlib.import_module('vlib.props.' + pid.lower())
    try:
        return mod.run(ctx)
    except WorkerCrashed as e:
        try:
            return worker_crashed(ctx, e)
        except InternalError as e2:
            print('INTERNAL ERROR in checker for %s: %s' % (pid, e2), file=sys.stderr)
            return 2
    except LibraryRaised as e:
        try:
            return library_raised(ctx, e)
        except InternalError as e2:
            print('INTERNAL ERROR in checker for %s: %s' % (pid, e2), file=sys.stderr)
            return 2
    except InternalError as e:
        print('INTERNAL ERROR in checker for %s: %s' % (pid, e), file=sys.stderr)
        return 2
    finally:
        ctx.close()


if __name__ == '__main__':
    sys.exit(main())
