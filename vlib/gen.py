"""E2 generators and the textbook reference algorithms shared by several checks."""
import itertools


def ordered_subsets(k, maxlen):
    for r in range(0, min(k, maxlen) + 1):
        yield from itertools.permutations(range(k), r)


def dags(n, maxlen=3):
    """All DAGs over nodes 0..n-1 in topological numbering; node k's ordered
    base list is any ordered subset (length <= maxlen) of 0..k-1. The empty
    list means 'derives from the root'."""
    def rec(k, acc):
        if k == n:
            yield tuple(acc)
            return
        for bs in ordered_subsets(k, maxlen):
            acc.append(bs)
            yield from rec(k + 1, acc)
            acc.pop()
    yield from rec(0, [])


def count_dags(n, maxlen=3):
    t = 1
    for k in range(n):
        t *= sum(1 for _ in ordered_subsets(k, maxlen))
    return t


class NoC3(Exception):
    pass


def c3(node, bases, memo):
    """Textbook C3 linearization. ``bases`` maps node -> ordered list of
    bases. Raises NoC3 if this node (or an ancestor) has none."""
    if node in memo:
        if memo[node] is None:
            raise NoC3
        return memo[node]
    memo[node] = None
    seqs = [list(c3(b, bases, memo)) for b in bases[node]] + [list(bases[node])]
    res = [node]
    while True:
        seqs = [s for s in seqs if s]
        if not seqs:
            break
        for s in seqs:
            c = s[0]
            if not any(c in t[1:] for t in seqs):
                break
        else:
            raise NoC3
        res.append(c)
        for s in seqs:
            if s and s[0] == c:
                del s[0]
    memo[node] = res
    return res


def c3_or_none(node, bases, memo):
    try:
        return c3(node, bases, memo)
    except NoC3:
        return None


def pymro(dag, root='R'):
    """CPython's own MRO on a mirrored class hierarchy: node -> list (only
    for nodes whose class could be created)."""
    out = {}
    K = {}
    for i, bs in enumerate(dag):
        if any(b not in K for b in bs):
            continue
        try:
            K[i] = type('K%d' % i, tuple(K[b] for b in bs) or (object,), {})
        except TypeError:
            continue
        inv = {v: k for k, v in K.items()}
        out[i] = [inv[c] for c in K[i].__mro__ if c is not object] + [root]
    return out


def ancestors(node, bases):
    anc = set()
    st = [node]
    while st:
        x = st.pop()
        if x not in anc:
            anc.add(x)
            st.extend(bases[x])
    return anc


def linearization_ok(seq, node, bases, root):
    """Generic invariants every resolution order must satisfy."""
    anc = ancestors(node, bases)
    if not seq or seq[0] != node or seq[-1] != root:
        return False
    if len(seq) != len(set(seq)) or set(seq) != anc:
        return False
    pos = {x: k for k, x in enumerate(seq)}
    return all(pos[x] < pos[b] for x in anc for b in bases[x])


def subsets(xs, maxsize):
    xs = list(xs)
    for r in range(0, maxsize + 1):
        yield from itertools.combinations(xs, r)
