"""C14 — calling an interface follows the PEP 246 adaptation order.

E2: full product of __conform__ behaviour x provided x hook lists x alternate
x custom __adapt__; oracle = a small interpreter of the property's sentence
producing the expected result/exception type *and* the expected call log.
Plus: with a registry's adapter_hook installed, I(obj) == registry.queryAdapter.
"""
import itertools

from zope.interface import Interface, implementer, interfacemethod, directlyProvides
from zope.interface.interface import adapter_hooks, InterfaceClass
from zope.interface.adapter import AdapterRegistry
from .common import wmod, newworld

LOG = []
NESTING = []
OTHER = [None]      # another interface, for nested adaptation inside a hook


class Boom(Exception):
    pass


CONF = ['absent', 'none', 'value', 'raise_val', 'raise_type_inner', 'attr_attrerr',
        'attr_other', 'raise_attrerr_inner', 'value_falsy',
        # a TypeError raised directly in the body; a staticmethod; a plain
        # function stored on the instance (both are called with the interface only)
        'raise_type_direct', 'static_value', 'instance_func_value',
        # the adaptee is a class object: __conform__ comes from its metaclass,
        # is a classmethod, or is the plain function meant for its instances
        # (calling that with the interface alone is the TypeError that counts
        # as "no __conform__")
        'meta_value', 'meta_none', 'meta_raise_val', 'classmethod_value', 'class_plain_function']
CLASS_ADAPTEE = ('meta_value', 'meta_none', 'meta_raise_val', 'classmethod_value', 'class_plain_function')
# 'nested' = a hook that itself adapts something else (which reaches the hook
# stage again) before declining
# 'poplast' / 'clear' = a hook that uninstalls hooks while the hooks are being called
# 'v_clear' / 'raise_clear' = a hook that empties the list and then answers / raises
# 'raise_stop' = a hook that raises StopIteration (an exception like any other)
HOOK = ['none', 'v', 'raise', 'falsy', 'nested', 'poplast', 'clear', 'v_clear', 'raise_clear', 'raise_stop']
ALT = ['absent', 'value', 'none_pos', 'value_kw', 'none_kw']
# how the interface gets its __adapt__: the standard one ('std'; 'std+method'
# = with an unrelated interfacemethod, which also creates a custom metaclass),
# or a custom one defined via interfacemethod on the interface itself, on its
# base ('inh'), on its base while the interface defines another interfacemethod
# ('inh+method'), or on both with the child overriding ('override')
# 'std+providedBy:yes' / ':no': the standard __adapt__ on an interface that
# overrides *providedBy* through interfacemethod ("other interface methods can
# be overridden this way too"): the overriding method decides
ADAPT = ['std', 'std+method', 'std+providedBy:yes', 'std+providedBy:no'] + [k + s for k in ('c_none', 'c_value', 'c_raise')
                                 for s in ('', ':inh', ':inh+method', ':override')]
# 'slots-direct': an instance without __dict__ whose class reserves a slot for
# __provides__, declared with directlyProvides
PROVIDED = ['no', 'class', 'direct', 'slots-direct']


def make_iface(adapt):
    if adapt == 'std':
        return InterfaceClass('I', (Interface,), {'__module__': wmod()})
    if adapt == 'std+method':
        class I(Interface):
            __module__ = wmod()

            @interfacemethod
            def helper(self):
                return 1
        return I
    if adapt.startswith('std+providedBy'):
        answer = adapt.endswith(':yes')

        class I(Interface):
            __module__ = wmod()

            @interfacemethod
            def providedBy(self, obj):
                return answer
        return I
    adapt, _, shape = adapt.partition(':')

    def custom(self, obj):
        LOG.append('adapt')
        if adapt == 'c_none':
            return None
        if adapt == 'c_value':
            return 'ADAPTED'
        raise Boom('adapt')

    def shadowed(self, obj):
        LOG.append('adapt-of-base')
        return 'BASE-ADAPTED'

    if shape == 'override':
        class IB(Interface):
            __module__ = wmod()

            @interfacemethod
            def __adapt__(self, obj):
                return shadowed(self, obj)
    else:
        class IB(Interface):
            __module__ = wmod()

            @interfacemethod
            def __adapt__(self, obj):
                return custom(self, obj)
    if not shape:
        return IB
    if shape == 'inh':
        class I(IB):
            __module__ = wmod()
    elif shape == 'inh+method':
        class I(IB):
            __module__ = wmod()

            @interfacemethod
            def helper(self):
                return 1
    else:
        class I(IB):
            __module__ = wmod()

            @interfacemethod
            def __adapt__(self, obj):
                return custom(self, obj)
    return I


def make_obj(I, conf, provided):
    ns = {}

    def mk(body):
        def __conform__(self, iface):
            LOG.append('conform')
            if iface is not I:
                LOG.append('conform-wrong-arg')
            return body()
        return __conform__
    if conf == 'none':
        ns['__conform__'] = mk(lambda: None)
    elif conf == 'value':
        ns['__conform__'] = mk(lambda: 'CONFORMED')
    elif conf == 'value_falsy':
        ns['__conform__'] = mk(lambda: 0)
    elif conf == 'raise_val':
        def b():
            raise ValueError('c')
        ns['__conform__'] = mk(b)
    elif conf == 'raise_type_inner':
        def b():
            def inner():
                raise TypeError('inner')
            return inner()
        ns['__conform__'] = mk(b)
    elif conf == 'raise_attrerr_inner':
        def b():
            raise AttributeError('inside')
        ns['__conform__'] = mk(b)
    elif conf == 'raise_type_direct':
        def __conform__(self, iface):
            LOG.append('conform')
            raise TypeError('directly in the body')
        ns['__conform__'] = __conform__
    elif conf == 'static_value':
        def sconform(iface):
            LOG.append('conform')
            if iface is not I:
                LOG.append('conform-wrong-arg')
            return 'CONFORMED'
        ns['__conform__'] = staticmethod(sconform)
    elif conf == 'attr_attrerr':
        def g(self):
            LOG.append('conform-get')
            raise AttributeError('x')
        ns['__conform__'] = property(g)
    elif conf == 'attr_other':
        def g(self):
            LOG.append('conform-get')
            raise KeyError('x')
        ns['__conform__'] = property(g)
    if conf in CLASS_ADAPTEE:
        if provided == 'slots-direct':
            return None
        mns = {}
        if conf == 'meta_value':
            mns['__conform__'] = mk(lambda: 'CONFORMED')
        elif conf == 'meta_none':
            mns['__conform__'] = mk(lambda: None)
        elif conf == 'meta_raise_val':
            def b():
                raise ValueError('c')
            mns['__conform__'] = mk(b)
        elif conf == 'classmethod_value':
            ns['__conform__'] = classmethod(mk(lambda: 'CONFORMED'))
        else:
            ns['__conform__'] = mk(lambda: 'CONFORMED-BY-AN-INSTANCE-METHOD')
        Meta = type('Meta', (type,), mns)
        K = Meta('K', (), ns)
        if provided == 'class':
            implementer(I)(Meta)
        elif provided == 'direct':
            directlyProvides(K, I)
        return K
    if provided == 'slots-direct':
        ns['__slots__'] = ('__provides__',) + (('__conform__',) if conf == 'instance_func_value' else ())
    K = type('K', (), ns)
    if provided == 'class':
        implementer(I)(K)
    o = K()
    if conf == 'instance_func_value':
        def iconform(iface):
            LOG.append('conform')
            if iface is not I:
                LOG.append('conform-wrong-arg')
            return 'CONFORMED'
        o.__conform__ = iconform
    if provided in ('direct', 'slots-direct'):
        directlyProvides(o, I)
    return o


def make_hook(kind, i, I, obj):
    def hook(iface, ob):
        if NESTING:
            return None          # the nested adaptation of an unrelated object: decline
        LOG.append('hook%d' % i)
        if iface is not I or ob is not obj:
            LOG.append('hook-wrong-args')
        if kind == 'none':
            return None
        if kind == 'poplast':
            if adapter_hooks:
                adapter_hooks.pop()
            return None
        if kind == 'clear':
            del adapter_hooks[:]
            return None
        if kind == 'v_clear':
            del adapter_hooks[:]
            return 'H%d' % i
        if kind == 'raise_clear':
            del adapter_hooks[:]
            raise Boom('hook%d' % i)
        if kind == 'nested':
            # look at some unrelated object first; it cannot be adapted either,
            # and that adaptation runs through the hooks as well
            if not NESTING:
                NESTING.append(1)
                try:
                    OTHER[0](object(), None)
                finally:
                    NESTING.pop()
            return None
        if kind == 'raise_stop':
            raise StopIteration('hook%d' % i)
        if kind == 'v':
            return 'H%d' % i
        if kind == 'falsy':
            return ()
        raise Boom('hook%d' % i)
    return hook


def expected(conf, provided, hooks, alt, adapt):
    if adapt.startswith('std+providedBy'):
        provided = 'class' if adapt.endswith(':yes') else 'no'
    adapt = 'std' if adapt.startswith('std') else adapt.partition(':')[0]
    lg = []
    if conf in ('none', 'value', 'raise_val', 'raise_type_inner', 'raise_attrerr_inner', 'value_falsy',
                'raise_type_direct', 'static_value', 'instance_func_value',
                'meta_value', 'meta_none', 'meta_raise_val', 'classmethod_value'):
        lg.append('conform')
        if conf in ('value', 'static_value', 'instance_func_value', 'meta_value', 'classmethod_value'):
            return ('ok', 'CONFORMED', lg)
        if conf == 'meta_raise_val':
            return ('exc', 'ValueError', lg)
        if conf == 'raise_type_direct':
            return ('exc', 'TypeError', lg)
        if conf == 'value_falsy':
            return ('ok', 0, lg)
        if conf == 'raise_val':
            return ('exc', 'ValueError', lg)
        if conf == 'raise_type_inner':
            return ('exc', 'TypeError', lg)
        if conf == 'raise_attrerr_inner':
            return ('exc', 'AttributeError', lg)
    elif conf == 'attr_attrerr':
        lg.append('conform-get')
    elif conf == 'attr_other':
        lg.append('conform-get')
        return ('exc', 'KeyError', lg)
    res = None
    if adapt == 'std':
        if provided != 'no':
            return ('ok', 'OBJ', lg)
        # the hook list is walked live, like ``for hook in adapter_hooks``
        live = list(enumerate(hooks))
        pos = 0
        while pos < len(live):
            i, h = live[pos]
            pos += 1
            lg.append('hook%d' % i)
            if h == 'poplast' and live:
                live.pop()
            if h in ('clear', 'v_clear', 'raise_clear'):
                del live[:]
            if h == 'v_clear':
                res = 'H%d' % i
                break
            if h == 'raise_clear':
                return ('exc', 'Boom', lg)
            if h == 'v':
                res = 'H%d' % i
                break
            if h == 'falsy':
                res = ()
                break
            if h == 'raise':
                return ('exc', 'Boom', lg)
            if h == 'raise_stop':
                return ('exc', 'StopIteration', lg)
    else:
        lg.append('adapt')
        if adapt == 'c_value':
            res = 'ADAPTED'
        elif adapt == 'c_raise':
            return ('exc', 'Boom', lg)
    if res is not None:
        return ('ok', res, lg)
    if alt in ('value', 'value_kw'):
        return ('ok', 'ALT', lg)
    if alt in ('none_pos', 'none_kw'):
        return ('ok', None, lg)
    return ('exc', 'TypeError:Could not adapt', lg)


def eval_case(case):
    adapt, conf, provided, hooks, alt = case
    newworld()
    I = make_iface(adapt)
    OTHER[0] = InterfaceClass('J', (Interface,), {'__module__': wmod()})
    obj = make_obj(I, conf, provided)
    if obj is None:
        return None, None
    saved = list(adapter_hooks)
    adapter_hooks[:] = [make_hook(k, i, I, obj) for i, k in enumerate(hooks)]
    del LOG[:]
    try:
        try:
            if alt == 'absent':
                r = I(obj)
            elif alt == 'value':
                r = I(obj, 'ALT')
            elif alt == 'none_pos':
                r = I(obj, None)
            elif alt == 'none_kw':
                r = I(obj, alternate=None)
            else:
                r = I(obj, alternate='ALT')
            got = ('ok', 'OBJ' if r is obj else r, list(LOG))
        except BaseException as e:
            nm = type(e).__name__
            if type(e) is TypeError and e.args and e.args[0] == 'Could not adapt':
                nm = 'TypeError:Could not adapt'
                if not (len(e.args) == 3 and e.args[1] is obj and e.args[2] is I):
                    nm = 'TypeError:Could not adapt(wrong args)'
            got = ('exc', nm, list(LOG))
    finally:
        adapter_hooks[:] = saved
    exp = expected(conf, provided, hooks, alt, adapt)
    if got != exp:
        what = 'result' if got[:2] != exp[:2] else 'call-log'
        return (what, got, exp), exp
    return None, exp


def eval_registry(case):
    """With a registry's adapter_hook installed the result equals
    registry.queryAdapter(obj, I)."""
    regkind, provided, alt = case
    newworld()
    R0 = InterfaceClass('R0', (Interface,), {'__module__': wmod()})
    R1 = InterfaceClass('R1', (R0,), {'__module__': wmod()})
    I = InterfaceClass('I', (Interface,), {'__module__': wmod()})
    I2 = InterfaceClass('I2', (I,), {'__module__': wmod()})
    K = type('K', (), {})
    implementer(R1)(K)
    if provided:
        implementer(I)(K)
    obj = K()
    reg = AdapterRegistry()
    calls = []

    def fac(tag, ret):
        def f(o):
            calls.append((tag, o is obj))
            return ret(o)
        return f
    if regkind == 'R0':
        reg.register([R0], I, '', fac('r0', lambda o: ('A0', id(o))))
    elif regkind == 'R1':
        reg.register([R0], I, '', fac('r0', lambda o: ('A0', id(o))))
        reg.register([R1], I, '', fac('r1', lambda o: ('A1', id(o))))
    elif regkind == 'extends':
        reg.register([R0], I2, '', fac('r0x', lambda o: ('AX', id(o))))
    elif regkind == 'none-factory':
        reg.register([R1], I, '', fac('rn', lambda o: None))
    elif regkind == 'named-only':
        reg.register([R1], I, 'n', fac('rnamed', lambda o: ('AN', id(o))))
    elif regkind == 'None-required':
        reg.register([None], I, '', fac('rany', lambda o: ('ANY', id(o))))
    saved = list(adapter_hooks)
    adapter_hooks[:] = [reg.adapter_hook]
    try:
        try:
            r = I(obj) if alt == 'absent' else I(obj, 'ALT')
            got = ('ok', 'OBJ' if r is obj else r)
        except TypeError as e:
            got = ('exc', 'TypeError')
    finally:
        adapter_hooks[:] = saved
    c1 = list(calls)
    q = reg.queryAdapter(obj, I)
    if provided:
        exp = ('ok', 'OBJ')
        if c1:
            return ('registry-consulted-although-provided', got, c1)
    elif q is not None:
        exp = ('ok', q)
    elif alt == 'absent':
        exp = ('exc', 'TypeError')
    else:
        exp = ('ok', 'ALT')
    if got != exp:
        return ('registry-hook-result', got, exp)
    if any(not ok for _, ok in calls):
        return ('factory-got-wrong-object', calls)
    return None


def eval_registry_chain(case):
    """The installed hook belongs to a registry that derives from another one
    (both flavours): what I(obj) answers follows later registrations in the
    base, exactly as registry.queryAdapter(obj, I) does."""
    from zope.interface.adapter import VerifyingAdapterRegistry
    flavour, step2 = case
    newworld()
    R0 = InterfaceClass('R0', (Interface,), {'__module__': wmod()})
    R1 = InterfaceClass('R1', (R0,), {'__module__': wmod()})
    I = InterfaceClass('I', (Interface,), {'__module__': wmod()})
    obj = implementer(R1)(type('K', (), {}))()
    cls = AdapterRegistry if flavour == 'adapter' else VerifyingAdapterRegistry
    base = cls()
    reg = cls((base,))
    base.register([R0], I, '', lambda o: ('A0', id(o)))
    saved = list(adapter_hooks)
    adapter_hooks[:] = [reg.adapter_hook]
    try:
        first = I(obj, None)
        if first != reg.queryAdapter(obj, I):
            return ('registry-chain:first-answer', first)
        if step2 == 'register-more-specific':
            base.register([R1], I, '', lambda o: ('A1', id(o)))
        elif step2 == 'unregister':
            base.unregister([R0], I, '')
        else:
            reg.register([R1], I, '', lambda o: ('OWN', id(o)))
        second = I(obj, None)
    finally:
        adapter_hooks[:] = saved
    fresh = cls((base,))
    if step2 == 'register-own':
        fresh.register([R1], I, '', lambda o: ('OWN', id(o)))
    if second != fresh.queryAdapter(obj, I):
        return ('registry-chain:answer-after-' + step2, second, fresh.queryAdapter(obj, I))
    return None


def evaluate(arg):
    viol = []
    n = 0
    outcomes = set()
    for kind, case in arg:
        n += 1
        if kind == 'call':
            v, exp = eval_case(case)
            if exp is None:
                n -= 1
                continue
            outcomes.add((exp[0], str(exp[1]), tuple(exp[2])))
        elif kind == 'chain':
            v = eval_registry_chain(case)
        else:
            v = eval_registry(case)
        if v:
            viol.append(dict(sig='C14:%s:%s' % (kind, v[0]), case=dict(kind=kind, case=case),
                             detail=dict(case=case, violation=v)))
    return dict(n=n, viol=viol, outcomes=sorted(outcomes))


def _t(x):
    return tuple(_t(y) for y in x) if isinstance(x, (list, tuple)) else x


def replay(case):
    c = _t(case['case'])
    v = eval_case(c)[0] if case['kind'] == 'call' else eval_registry_chain(c) if case['kind'] == 'chain' \
        else eval_registry(c)
    return dict(violation=v) if v else None


def call_cases(maxh):
    """The product of the I(obj) cases (shared with C10)."""
    hooklists = [()]
    for k in range(1, maxh + 1):
        hooklists += list(itertools.product(HOOK, repeat=k))
    # an interface with a custom __adapt__ never reaches the hooks: three hook
    # lists are enough to see that none is called
    out = list(itertools.product(ADAPT[:4], CONF, PROVIDED, hooklists, ALT))
    out += list(itertools.product(ADAPT[4:], CONF, PROVIDED, [(), ('v',), ('raise', 'v')], ALT))
    return out


def run(ctx):
    from ..runner import finish, chunks
    maxh = 2 if ctx.tier == 'quick' else 3
    cases = [('call', c) for c in call_cases(maxh)]
    cases += [('reg', c) for c in itertools.product(
        ['empty', 'R0', 'R1', 'extends', 'none-factory', 'named-only', 'None-required'],
        (False, True), ('absent', 'value'))]
    cases += [('chain', c) for c in itertools.product(
        ('adapter', 'verifying'), ('register-more-specific', 'unregister', 'register-own'))]
    outcomes = set()
    for impl in ('c', 'py'):
        res = ctx.map(impl, 'evaluate', chunks(cases, 600))
        for r in res:
            ctx.add(evaluations=r['n'])
            for v in r['viol']:
                v['impl'] = impl
            ctx.violations(r['viol'])
            outcomes.update(map(lambda o: (o[0], o[1], tuple(o[2])), r['outcomes']))
    ctx.count['states'] = len(cases)
    ctx.count['transitions'] = ctx.count['evaluations']
    ctx.count['distinct_nontrivial'] = len(outcomes)
    ctx.sample(dict(case=cases[len(cases) // 3][1], fields='(custom __adapt__, __conform__ behaviour, provided, hook list, alternate)'))
    ctx.sample(dict(case=cases[-3]))
    return finish(
        ctx, 'model_checking',
        'full product of __conform__ behaviours x adaptee kinds (instance, instance without __dict__, class object) x provided (class/direct/no) x all hook lists up to length %d x alternate forms x custom __adapt__, each executed as I(obj[, alternate]) on real objects and compared (result, exception type, exact call log) with an interpreter of the documented order; plus registry adapter_hook cases compared with queryAdapter' % maxh,
        'complete Cartesian product; distinct_nontrivial = distinct expected (result, call log) outcomes')
