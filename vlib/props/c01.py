"""C01 — providedBy / implementedBy are exact after any declaration history.

E1: breadth-first search over declaration histories on real classes and
instances, against two reference models (L drops a declaration exactly when it
is redundant at the moment it is made, U never drops):  L ⊆ reported ⊆ U.
"""
import gc
import hashlib

from zope.interface import (
    Interface, classImplements, classImplementsOnly, classImplementsFirst,
    directlyProvides, alsoProvides, noLongerProvides, providedBy,
    implementedBy, implementer, implementer_only, provider)
from zope.interface import declarations as _decl
from zope.interface.interface import InterfaceClass
from .common import wmod, newworld

IF_BASES = {'I0': (), 'I1': ('I0',), 'I2': ()}
IF_NAMES = list(IF_BASES)

WORLDS = {
    # name -> (class bases, instances)
    'tree': ({'A': (), 'B': ('A',), 'C': ('A',)},
             {'a': 'A', 'b1': 'B', 'b2': 'B', 'c': 'C'}),
    'diamond': ({'A': (), 'M': (), 'B': ('A',), 'C': ('A', 'M'), 'D': ('B', 'C')},
                {'b1': 'B', 'd1': 'D', 'd2': 'D', 'c': 'C'}),
    # three levels: what is shared between instances of the most derived class
    # has to follow a re-declaration two levels up
    'chain3': ({'A': (), 'B': ('A',), 'C': ('B',)},
               {'c1': 'C', 'c2': 'C'}),
    # B lists A both indirectly (through C) and directly
    'redundant-base': ({'A': (), 'C': ('A',), 'B': ('C', 'A')},
                       {'a': 'A', 'b1': 'B', 'b2': 'B', 'c': 'C'}),
    # two stacked diamonds: X is reached from A along three paths of different
    # length, one of them through another join (D)
    'stacked-diamonds': ({'A': (), 'Z': ('A',), 'B': ('A',), 'C': ('A',), 'D': ('B', 'C'),
                          'X': ('Z', 'D')},
                         {'x1': 'X', 'd1': 'D'}),
}


def ext(i, j):
    return i == j or any(ext(b, j) for b in IF_BASES[i])


def closure(names):
    out = set()
    for n in names:
        for j in IF_NAMES:
            if ext(n, j):
                out.add(j)
    return out


class Model:
    def __init__(self, drop, cl_bases, objs):
        self.drop = drop
        self.bases = dict(cl_bases)
        self.objs = dict(objs)
        self.decl = {k: [] for k in cl_bases}
        self.inherit = {k: True for k in cl_bases}
        self.direct = {o: [] for o in objs}
        self.cdirect = {k: [] for k in cl_bases}
        self.specrefs = {k: [] for k in cl_bases}    # classes whose specification k declares

    def mro(self, k):
        # only used for membership: any order is fine
        out = [k]
        for b in self.bases[k]:
            for x in self.mro(b):
                if x not in out:
                    out.append(x)
        return out

    def impl(self, k):
        s = closure(self.decl[k])
        for x in self.specrefs.get(k, ()):
            s |= self.impl(x)
        if self.inherit[k]:
            for b in self.bases[k]:
                s |= self.impl(b)
        return s

    def cispec(self, k, x):
        # classImplements(K, implementedBy(X)): K implements whatever X implements, live
        if x not in self.specrefs[k] and x not in self.mro(k):
            self.specrefs[k].append(x)

    def prov(self, o):
        return closure(self.direct[o]) | self.impl(self.objs[o])

    def cprov(self, k):
        return closure(self.cdirect[k])

    def _add_cls(self, k, before, after):
        cur = self.impl(k)

        def f(xs):
            return [x for x in xs if not (self.drop and x in cur)]
        new = []
        for x in f(before) + self.decl[k] + f(after):
            if x not in new:
                new.append(x)
        self.decl[k] = new

    def ci(self, k, i):
        self._add_cls(k, [], [i])

    def cif(self, k, i):
        self._add_cls(k, [i], [])

    def cio(self, k, *ifs):
        self.decl[k] = []
        self.specrefs[k] = []
        self.inherit[k] = False
        self._add_cls(k, list(ifs), [])

    def ciok(self, k, i):
        # classImplementsOnly(K, I, implementedBy(K)): the documented way of
        # keeping what the class lists now while cutting it off from its bases
        cur = [x for x in IF_NAMES if x in self.impl(k)]
        self.cio(k, i, *cur)

    def _set_direct(self, o, ifs):
        cur = self.impl(self.objs[o])
        new = []
        for x in ifs:
            if self.drop and x in cur:
                continue
            if x not in new:
                new.append(x)
        self.direct[o] = new

    def dp(self, o, *ifs):
        self._set_direct(o, list(ifs))

    def ap(self, o, i):
        self._set_direct(o, self.direct[o] + [i])

    def nlp(self, o, i):
        self._set_direct(o, [x for x in self.direct[o] if not ext(x, i)])
        return i in self.prov(o)

    # class objects as subjects (``provider`` / directlyProvides on a class)
    def cdp(self, k, *ifs):
        new = []
        for x in ifs:
            if x not in new:
                new.append(x)
        self.cdirect[k] = new

    def cap(self, k, i):
        self.cdp(k, *(self.cdirect[k] + [i]))

    def cnlp(self, k, i):
        self.cdp(k, *[x for x in self.cdirect[k] if not ext(x, i)])
        return i in self.cprov(k)

    def newsub(self, k):
        self.bases['E'] = (k,)
        self.specrefs['E'] = []
        self.decl['E'] = []
        self.inherit['E'] = True
        self.cdirect['E'] = []
        self.objs['e'] = 'E'
        self.direct['e'] = []

    def newinst(self, k):
        self.objs['n'] = k
        self.direct['n'] = []

    def kill(self, o):
        self.direct[o] = []

    def key(self):
        return (sorted(self.decl.items()), sorted(self.specrefs.items()), sorted(self.inherit.items()),
                sorted(self.direct.items()), sorted(self.cdirect.items()),
                sorted(self.objs.items()))


class World:
    def __init__(self, cfg):
        cl_bases, objs = WORLDS[cfg['world']]
        # worlds of earlier histories are dead; their shared declarations are
        # keyed by dead classes and cannot be hit again, but they cost time
        _decl.InstanceDeclarations.clear()
        newworld()
        self.I = {}
        for n in IF_NAMES:
            self.I[n] = InterfaceClass(
                n, tuple(self.I[b] for b in IF_BASES[n]) or (Interface,),
                {'__module__': wmod()})
        # class C is an instance of a metaclass that implements IM: as an
        # *object*, C provides IM through its type, whatever is declared on or
        # asked about C, and instances of C never do
        self.IM = InterfaceClass('IM', (Interface,), {'__module__': wmod()})
        self.Meta = type('Meta', (type,), {'__module__': wmod()})
        classImplements(self.Meta, self.IM)
        self.K = {}
        for n, bs in cl_bases.items():
            mk = self.Meta if n == 'C' else type
            # instances are *falsy* (empty containers): nothing may depend on
            # the truth value of an object
            self.K[n] = mk(n, tuple(self.K[b] for b in bs) or (object,),
                           {'__module__': wmod(), '__len__': lambda self: 0})
        self.O = {o: self.K[k]() for o, k in objs.items()}
        self.L = Model(True, cl_bases, objs)
        self.U = Model(False, cl_bases, objs)

    def apply(self, op):
        """Apply to the real objects and both models. Returns a violation
        tuple or None."""
        I, K, O = self.I, self.K, self.O
        t = op[0]
        r = None
        if t == 'ci':
            classImplements(K[op[1]], I[op[2]])
        elif t == 'impl':
            t = 'ci'
            implementer(I[op[2]])(K[op[1]])
        elif t == 'cif':
            classImplementsFirst(K[op[1]], I[op[2]])
        elif t == 'cio':
            classImplementsOnly(K[op[1]], *[I[x] for x in op[2:]])
        elif t == 'ciok':
            classImplementsOnly(K[op[1]], I[op[2]], implementedBy(K[op[1]]))
        elif t == 'cispec':
            classImplements(K[op[1]], implementedBy(K[op[2]]))
        elif t == 'implonly':
            t = 'cio'
            implementer_only(*[I[x] for x in op[2:]])(K[op[1]])
        elif t == 'dp':
            directlyProvides(O[op[1]], *[I[x] for x in op[2:]])
        elif t == 'ap':
            alsoProvides(O[op[1]], I[op[2]])
        elif t == 'nlp':
            try:
                noLongerProvides(O[op[1]], I[op[2]])
                r = False
            except ValueError:
                r = True
        elif t == 'cdp':
            directlyProvides(K[op[1]], *[I[x] for x in op[2:]])
        elif t == 'prov':
            t = 'cdp'
            provider(*[I[x] for x in op[2:]])(K[op[1]])
        elif t == 'cap':
            alsoProvides(K[op[1]], I[op[2]])
        elif t == 'cnlp':
            try:
                noLongerProvides(K[op[1]], I[op[2]])
                r = False
            except ValueError:
                r = True
        elif t == 'Q':
            observe(self)
        elif t == 'kill':
            O[op[1]] = K[self.L.objs[op[1]]]()
            gc.collect()
        elif t == 'newsub':
            K['E'] = type('E', (K[op[1]],), {'__module__': wmod()})
            O['e'] = K['E']()
        elif t == 'newinst':
            O['n'] = K[op[1]]()
        if t != 'Q':
            rl = getattr(self.L, t)(*op[1:])
            ru = getattr(self.U, t)(*op[1:])
            if t in ('nlp', 'cnlp') and rl == ru and r != rl:
                return ('nlp-exc', op, r, rl)
        return None


def _names(spec):
    return {i.__name__ for i in spec.flattened()} - {'Interface'}


def observe(w):
    """Everything the property talks about, for every object of the world.
    Returns (observation dict, inconsistency or None)."""
    res = {}
    bad = None
    for o, ob in w.O.items():
        fl = _names(providedBy(ob))
        if 'IM' in fl or w.IM.providedBy(ob):
            bad = bad or ('instance provides what only the metaclass of its class implements', o)
        for n in IF_NAMES:
            if w.I[n].providedBy(ob) != (n in fl):
                bad = bad or ('I.providedBy(ob) disagrees with providedBy(ob)', o, n)
        res[o] = fl
    for k, cls in w.K.items():
        fl = _names(implementedBy(cls))
        for n in IF_NAMES:
            if w.I[n].implementedBy(cls) != (n in fl):
                bad = bad or ('I.implementedBy(cls) disagrees with implementedBy(cls)', k, n)
        res[k] = fl
        fl = _names(providedBy(cls))
        for n in IF_NAMES:
            if w.I[n].providedBy(cls) != (n in fl):
                bad = bad or ('I.providedBy(cls) disagrees with providedBy(cls)', k, n)
        via_meta = isinstance(cls, w.Meta)
        if ('IM' in fl) != via_meta or w.IM.providedBy(cls) != via_meta:
            bad = bad or ('class object and the interface implemented by its metaclass', k,
                          'IM' in fl, w.IM.providedBy(cls), via_meta)
        fl.discard('IM')
        if 'IM' in _names(implementedBy(cls)):
            bad = bad or ('implementedBy(cls) reports what the metaclass implements', k)
        res['cls:' + k] = fl
    return res, bad


def check_state(w):
    got, bad = observe(w)
    if bad:
        return ('inconsistent',) + bad
    L, U = w.L, w.U
    for o in L.objs:
        lo, up = L.prov(o), U.prov(o)
        if not (lo <= got[o] <= up):
            return ('providedBy', o, sorted(got[o]), sorted(lo), sorted(up))
    for k in L.bases:
        lo, up = L.impl(k), U.impl(k)
        if not (lo <= got[k] <= up):
            return ('implementedBy', k, sorted(got[k]), sorted(lo), sorted(up))
        lo = L.cprov(k)
        if got['cls:' + k] != lo:
            return ('providedBy(class)', k, sorted(got['cls:' + k]), sorted(lo), sorted(lo))
    return None


def _sn(x):
    """Generated name without the per-world module prefix."""
    n = getattr(x, '__name__', None)
    return n.rsplit('.', 1)[-1] if isinstance(n, str) else None


def hidden(w):
    """Digest of the implementation state that may influence the future and is
    not determined by the models; used for merging only."""
    out = []
    for k, c in w.K.items():
        s = c.__dict__.get('__implemented__')
        out.append((k, None if s is None else (
            tuple(_sn(x) for x in s.declared), s.inherit is not None,
            tuple(_sn(b) for b in s.__bases__),
            tuple(_sn(x) for x in s.__sro__))))
        p = c.__dict__.get('__provides__')
        out.append(None if p is None else (
            type(p).__name__, tuple(_sn(b) for b in p.__bases__)))
    ids = {}
    for o, ob in w.O.items():
        p = ob.__dict__.get('__provides__')
        out.append((o, None if p is None else (
            ids.setdefault(id(p), len(ids)),
            tuple(_sn(b) for b in p.__bases__))))
    keys = []
    mine = set(w.K.values())
    for key, v in list(_decl.InstanceDeclarations.items()):
        if key[0] in mine:
            keys.append((key[0].__name__, tuple(_sn(x) for x in key[1:]),
                         tuple(_sn(b) for b in v.__bases__),
                         ids.get(id(v), -1)))
    out.append(tuple(sorted(keys)))
    return tuple(out)


def alphabet(cfg, hist):
    cl_bases, objs = WORLDS[cfg['world']]
    classes = list(cl_bases)
    insts = list(objs)
    has_e = any(op[0] == 'newsub' for op in hist)
    has_n = any(op[0] == 'newinst' for op in hist)
    if cfg.get('ops'):
        return [tuple(o) for o in cfg['ops']]
    focus = cfg.get('focus')
    ops = []
    for k in classes + (['E'] if has_e else []):
        if focus and k not in focus:
            continue
        for i in IF_NAMES:
            ops += [('ci', k, i), ('cif', k, i), ('cio', k, i)]
        ops.append(('cio', k))
        ops.append(('ciok', k, 'I2'))
    for o in insts + (['e'] if has_e else []) + (['n'] if has_n else []):
        if focus and o not in focus:
            continue
        for i in IF_NAMES:
            ops += [('dp', o, i), ('ap', o, i), ('nlp', o, i)]
        ops.append(('dp', o))
    ops.append(('Q',))
    kk = cfg.get('kill', [])
    for o in kk:
        ops.append(('kill', o))
    if cfg.get('extras', True):
        sub = cfg['sub']
        if not has_e:
            ops.append(('newsub', sub))
        if not has_n:
            ops.append(('newinst', sub))
        # decorator spellings and class objects as subjects
        ops += [('impl', sub, 'I2'), ('implonly', sub, 'I2'), ('implonly', sub)]
        for k in cfg.get('cls_subjects', [sub]):
            for i in ('I1', 'I2'):
                ops += [('cdp', k, i), ('cap', k, i), ('cnlp', k, i)]
            ops += [('prov', k, 'I1'), ('cdp', k)]
    return ops


def run_hist(cfg, hist):
    """Replay one history on a fresh world. Returns (world, violation)."""
    w = World(cfg)
    for op in hist:
        v = w.apply(tuple(op))
        if v:
            return w, v
    return w, check_state(w)


def _sig(v):
    return 'C01:' + v[0]


def expand(arg):
    cfg, hists = arg
    viol = []
    new = []
    local = set()
    n = 0
    ldiff = 0
    for h in hists:
        for op in alphabet(cfg, h):
            hh = tuple(h) + (op,)
            n += 1
            w, v = run_hist(cfg, hh)
            if v:
                viol.append(dict(sig=_sig(v), case=dict(cfg=cfg, hist=hh),
                                 detail=dict(history=hh, violation=v)))
                continue
            lk, uk = w.L.key(), w.U.key()
            if lk != uk:
                ldiff += 1
            key = hashlib.blake2b(repr((lk, uk, hidden(w))).encode(),
                                  digest_size=12).digest()
            if key not in local:
                local.add(key)
                new.append((key, hh))
        if n % 3000 < 80:
            gc.collect()
    gc.collect()
    return dict(trans=n, viol=viol, new=new, stats={'states_where_L_differs_from_U': ldiff})


def replay(case):
    w, v = run_hist(case['cfg'], [tuple(op) for op in case['hist']])
    if v:
        return dict(violation=v, history=case['hist'])
    return None


CFG = {
    'tree': dict(world='tree', sub='B', kill=['b1'], cls_subjects=['B', 'C']),
    'diamond': dict(world='diamond', sub='D', kill=['d1'], cls_subjects=['D']),
    # class declarations only, one level deeper: what a class keeps after its
    # bases were re-declared depends on the order of four or more declarations
    'redundant-base': dict(world='redundant-base', sub='B', kill=['b1'], cls_subjects=['B']),
    'chain3': dict(world='chain3', sub='C', kill=['c1'], cls_subjects=[], extras=False),
    'tree-classes': dict(world='tree', sub='B', kill=[], cls_subjects=[], extras=False,
                         focus=['A', 'B', 'b1']),
    # one class declares another class's *specification*: it implements whatever
    # that class implements, for as long as it does
    'declared-class-spec': dict(world='tree', sub='B', kill=[], cls_subjects=[], extras=False,
                                ops=[('ci', 'C', 'I0'), ('ci', 'C', 'I1'), ('cio', 'C'), ('cio', 'C', 'I2'),
                                     ('cispec', 'B', 'C'), ('dp', 'b1', 'I0'), ('dp', 'b2', 'I0'),
                                     ('dp', 'b1', 'I1'), ('ap', 'b2', 'I0'), ('dp', 'b1'), ('Q',),
                                     ('ci', 'B', 'I2'), ('cio', 'B')]),
    'stacked-diamonds': dict(world='stacked-diamonds', sub='X', kill=[], cls_subjects=[], extras=False,
                             focus=['A', 'C', 'X', 'x1']),
}


def run(ctx):
    from ..e1 import bfs
    from ..runner import finish
    plan = []
    if ctx.tier == 'quick':
        plan = [('tree', 3, ['b2'], 1),
                ('diamond', 2, ['D', 'd2'], 1),
                ('redundant-base', 2, ['C', 'B', 'b2'], 1),
                ('chain3', 3, ['c2'], 1),
                ('tree-classes', 4, None, 0),
                ('stacked-diamonds', 3, None, 0),
                ('declared-class-spec', 5, None, 0)]
    else:
        plan = [('tree', 4, ['B', 'b2'], 1),
                ('diamond', 3, ['C', 'D', 'd2'], 1),
                ('redundant-base', 3, ['C', 'B', 'b2'], 1),
                ('chain3', 4, ['c2'], 1),
                ('tree-classes', 5, None, 0),
                ('stacked-diamonds', 4, None, 0),
                ('declared-class-spec', 6, None, 0)]
    if 'depth' in ctx.opts:
        plan = [(p[0], int(ctx.opts['depth']), p[2], int(ctx.opts.get('extra', p[3])))
                for p in plan]
    for impl in ('c', 'py'):
        for world, depth, focus, extra in plan:
            cfg = dict(CFG[world])
            r = bfs(ctx, impl, 'expand', cfg, depth, label=world)
            ctx.add(states=r['states'], transitions=r['transitions'])
            ctx.info['%s/%s' % (impl, world)] = dict(
                depth=r['depth_done'], states=r['states'],
                transitions=r['transitions'], fixpoint=r['fixpoint'],
                new_states_per_depth=r['per_level'])
            if ctx.unknown_viol() and not ctx.opts.get('keep_going'):
                break
            if not extra:
                continue
            # one more level from the de-duplicated frontier, on a reduced alphabet
            cfg2 = dict(cfg, focus=focus, extras=False)
            seen = set()
            r2 = bfs(ctx, impl, 'expand', cfg2, extra, label=world + '+focus',
                     start=r['frontier'], seen=seen)
            ctx.add(states=r2['states'], transitions=r2['transitions'])
            ctx.info['%s/%s+focus' % (impl, world)] = dict(
                extra_depth=r2['depth_done'], alphabet_restricted_to=focus,
                states=r2['states'], transitions=r2['transitions'])
            if r['frontier']:
                ctx.sample(dict(impl=impl, world=world,
                                history=r['frontier'][len(r['frontier']) // 2]))
        if ctx.unknown_viol() and not ctx.opts.get('keep_going'):
            break
    ctx.count['traces_validated_against_impl'] = ctx.count['transitions']
    ctx.assumptions += [
        'alphabet: 3 interfaces (I1 extends I0), class tree A/B(A)/C(A) and diamond D(B,C) with an undeclared mixin, 4 instances; histories up to the stated depth',
        'garbage collection happens only at explicit kill operations',
    ]
    return finish(
        ctx, 'model_checking',
        'every history (sequence of declaration calls, queries, subclass/instance creation, object death) up to the depth is replayed on fresh real classes; in every state reached providedBy/implementedBy of every object and class of the world is compared with two reference models (L subset reported subset U)',
        'BFS over histories with de-duplication on (model state, digest of hidden implementation state); states = distinct canonical states, transitions = histories executed')
