"""C10 — the C accelerator is observationally equivalent to the Python reference.

E3: lock-step differential. The same enumerated programs run under
PURE_PYTHON=0 and PURE_PYTHON=1 in separate processes; per program the API
observations (results rendered with generated names, exception *type* names)
are digested and compared; a differing chunk is re-run program by program to
find the first divergent step.

Program sets: (a) lock-step BFS over the history alphabets of C01, C02, C06,
C07, C09, C16 (frontier de-duplicated on the C side's canonical state);
(b) complete input enumerations of C04, C08, C14, C19, C20 with *exact*
result comparison (also where those properties' own oracles leave freedom);
(c) an odd-values alphabet with no oracle at all.
"""
import gc
import hashlib
import importlib
import itertools
import re

from .common import wmod, newworld


def _dig(x):
    return hashlib.blake2b(repr(x).encode(), digest_size=10).digest()


# ---------------------------------------------------------------- (a) E1 kinds

def _m(name):
    return importlib.import_module('vlib.props.' + name)


def obs_c01(cfg, hh):
    m = _m('c01')
    w, v = m.run_hist(cfg, hh)
    obs, bad = m.observe(w)
    return (repr(v and v[0]), sorted((k, sorted(s)) for k, s in obs.items())), (w.L.key(), w.U.key(), m.hidden(w))


def obs_c02(cfg, hh):
    m = _m('c02')
    w, v = m.run_hist(cfg, hh)
    if v == 'disabled':
        return None, None
    rows = []
    for n, s in w.specs.items():
        rows.append((n, [w.name(x) for x in s.__sro__], [w.name(x) for x in s.__iro__],
                     [bool(s.isOrExtends(t)) for t in w.specs.values()],
                     [bool(s.extends(t)) for t in w.specs.values()]))
    return (repr(v and v[0]), rows), m.canon(w)


def obs_c06(cfg, hh):
    m = _m('c06')
    w, v = m.run_hist(cfg, hh)
    if v == 'disabled':
        return None, None
    inv = {id(w.areg(x)): x for x in w.names}
    rows = []
    for n in w.names:
        r = w.areg(n)
        rows.append((n, r.lookup([w.R1], w.P), r.lookup([w.R], w.P), r.lookup([w.R1], w.P, 'x'),
                     sorted(r.lookupAll([w.R1], w.P)), list(r.subscriptions([w.R1], w.P)),
                     [inv.get(id(x), '?') for x in r.ro]))
    return (repr(v and v[0]), rows), w.canon()


def obs_c07(cfg, hh):
    m = _m('c07')
    W, M, v = m.run_hist(cfg, hh)
    rows = []
    for lreq in m.LOOKS:
        for lp in ('P0', 'P1', None):
            rows.append(repr(W['reg'].subscriptions([W[x] for x in lreq], W[lp])))
    from .regmodel import registry_digest
    return (repr(v and v[0]), rows), ([(e[0], e[1], e[2], repr(e[3])) for e in M],
                                      registry_digest(W['reg']), registry_digest(W['base']))


def obs_c09(cfg, hh):
    m = _m('c09')
    W, M, S, v = m.run_hist(cfg, hh)
    r = W['reg']
    rows = [sorted((tuple(m.nm(x) for x in rq), m.nm(p), n, repr(val)) for rq, p, n, val in r.allRegistrations()),
            [(tuple(m.nm(x) for x in rq), m.nm(p), repr(val)) for rq, p, val in r.allSubscriptions()]]
    for lreq in m.LOOKS:
        for lp in ('P0', 'P1', 'P2'):
            rq = [W[x] for x in lreq]
            rows.append((repr(r.lookup(rq, W[lp], '')), repr(r.lookup(rq, W[lp], 'n')),
                         repr(r.subscriptions(rq, W[lp])), sorted(repr(x) for x in r.lookupAll(rq, W[lp]))))
    from .regmodel import registry_digest
    return (repr(v and v[0]), rows), (sorted((repr(k), repr(x)) for k, x in M.items()),
                                      [(k, repr(x)) for k, x in S], registry_digest(r))


def obs_c16(cfg, hh):
    m = _m('c16')
    W, M, v = m.run_hist(cfg, hh)
    c = W['c']
    rows = [sorted(repr((r.provided.__name__, r.name, r.component)) for r in c.registeredUtilities()),
            sorted(repr((r.required[0].__name__, r.provided.__name__, r.name, r.factory)) for r in c.registeredAdapters()),
            [repr((r.required[0].__name__, r.factory)) for r in c.registeredSubscriptionAdapters()],
            [repr((r.required[0].__name__, r.factory)) for r in c.registeredHandlers()]]
    for p in ('P0', 'P1'):
        rows.append((repr(c.queryUtility(W[p])), repr(c.queryUtility(W[p], 'n')),
                     sorted(repr(x) for x in c.getUtilitiesFor(W[p])),
                     sorted(repr(x) for x in c.getAllUtilitiesRegisteredFor(W[p]))))
    key = (sorted((k, repr(x)) for k, x in M.utils.items()),
           sorted((k, repr(x)) for k, x in M.adapters.items()),
           [(a, b, repr(f)) for a, b, f in M.subs], [(a, repr(f)) for a, f in M.handlers],
           m.hidden(W))
    return (repr(v), rows), key


E1 = {
    'c01': (lambda cfg, h: _m('c01').alphabet(cfg, h), obs_c01),
    'c02': (lambda cfg, h: _m('c02').all_ops(cfg), obs_c02),
    'c06': (lambda cfg, h: _m('c06').all_ops(cfg), obs_c06),
    'c07': (lambda cfg, h: _m('c07').all_ops(cfg), obs_c07),
    'c09': (lambda cfg, h: _m('c09').all_ops(cfg), obs_c09),
    'c16': (lambda cfg, h: _m('c16').all_ops(cfg), obs_c16),
}


def trace_chunk(arg):
    """(module, cfg, histories, full) -> per extended history (obs digest, key digest)."""
    mod, cfg, hists, full = arg
    ops_fn, obs_fn = E1[mod]
    out = []
    n = 0
    for h in hists:
        for op in ops_fn(cfg, h):
            hh = tuple(h) + (op,)
            n += 1
            try:
                obs, key = obs_fn(cfg, hh)
            except Exception as e:
                obs, key = ('EXC', type(e).__name__), None
            if obs is None:
                out.append((None, None, None))
            else:
                out.append((_dig(obs), _dig(key) if key is not None else None,
                            obs if full else None))
        if n % 1500 < 100:
            gc.collect()
    gc.collect()
    return out


# ---------------------------------------------------------------- (b) E2 kinds

def prog_c04(arg):
    m = _m('c04')
    flavour, layout, entries = arg
    h = m.H()
    reg, contents, ro_index = m.build(h, flavour, layout, entries)
    out = []
    arities = sorted({len(k[0]) for k, _ in entries}) or [1]
    for ar in arities:
        for lreq, qp, nm_ in m.lookup_keys(ar):
            required = [h.look[x] for x in lreq]
            out.append(reg.lookup(required, h.qprov[qp], nm_, 'DEFAULT'))
            if ar == 1:
                out.append(sorted(reg.lookupAll(required, h.qprov[qp])))
    return out


def prog_c08(arg):
    m = _m('c08')
    flavour, combo, vals = arg
    h = m.H()
    cls = m.FLAVOURS[flavour]
    out = []
    for obname, ob in h.OBJ.items():
        for pn, prov in h.P.items():
            for name in ('', 'n', 7):
                reg = cls()
                for ci, vi in zip(combo, vals):
                    k = h.KEYS[ci]
                    reg.register(list(k[0]), k[1], k[2], h.VALS[vi])
                    if k[2] == '':
                        reg.subscribe(list(k[0]), k[1], h.VALS[vi])
                for ep in m.EPS:
                    try:
                        r = m.entry(reg, ep, ob, prov, name)
                        out.append('SENT' if r is m.SENT else re.sub(r' at 0x[0-9a-f]+', '', repr(r)))
                    except Exception as e:
                        out.append('EXC:' + type(e).__name__)
    return out


def prog_c14(arg):
    m = _m('c14')
    v, exp = m.eval_case(arg)
    # eval_case compares with the interpreter; here we want the raw behaviour
    return repr((v, exp))


def prog_c19(arg):
    m = _m('c19')
    shape, pre, post = arg
    W = m.build(shape)
    M = m.Model(shape)
    out = []

    def snap():
        from zope.interface import providedBy, implementedBy, directlyProvides
        leaf = m.SHAPES[shape][-1][0]
        ob = W[leaf]()
        directlyProvides(ob, W['I2'])
        for c in W[leaf].__mro__:
            if c is object:
                continue
            s = super(c, ob)
            out.append(([x.__name__ for x in providedBy(s).flattened()],
                        [x.__name__ for x in implementedBy(s)],
                        [x.__name__ for x in providedBy(s).__sro__ if hasattr(x, '__name__')]))
    for op in pre:
        m.apply(W, M, op)
    snap()
    m.apply(W, M, post)
    snap()
    return out


def prog_c20(arg):
    m = _m('c20')
    from zope.interface import Declaration
    a, b = arg
    I = m.mkifaces()
    A = Declaration(*[I[x] for x in a])
    B = Declaration(*[I[x] for x in b])
    return (m.nm(A), m.nm(B), m.nm(A + B), m.nm(A - B), m.nm((A + B).flattened()),
            m.nm((A - B).flattened()), [I[x] in A + B for x in m.NAMES],
            m.nm(A.__sro__[1:]) if len(A.__sro__) > 1 else [])


# ---------------------------------------------------------------- (c) odd values

def odd_values():
    """Subjects with unusual declaration-related attributes."""
    from zope.interface import (Interface, implementer, directlyProvides, implementedBy,
                                providedBy, Declaration)
    from zope.interface.interface import InterfaceClass
    newworld()
    I0 = InterfaceClass('I0', (Interface,), {'__module__': wmod()})
    I1 = InterfaceClass('I1', (I0,), {'__module__': wmod()})
    subj = {}

    def raising(exc):
        def g(self):
            raise exc('boom')
        return property(g)
    A = implementer(I0)(type('A', (), {}))
    subj['plain'] = A()
    o = A()
    directlyProvides(o, I1)
    subj['dp'] = o
    for label, val in (('None', None), ('int', 7), ('str', 'x'), ('decl', Declaration(I1)),
                       ('iface', I1), ('tuple', (I1,))):
        K = type('K' + label, (), {'__provides__': val})
        subj['__provides__=' + label] = K()
        K2 = type('KB' + label, (), {'__providedBy__': val})
        subj['__providedBy__=' + label] = K2()
        K3 = type('KI' + label, (), {'__implemented__': val})
        subj['__implemented__=' + label] = K3()
        subj['cls:__implemented__=' + label] = K3
    for label, exc in (('AttributeError', AttributeError), ('KeyError', KeyError),
                       ('TypeError', TypeError)):
        K = type('KP' + label, (), {'__provides__': raising(exc)})
        subj['__provides__ raises ' + label] = K()
        K2 = type('KPB' + label, (), {'__providedBy__': raising(exc)})
        subj['__providedBy__ raises ' + label] = K2()
        K3 = type('KPP' + label, (), {'__providedBy__': 3, '__provides__': raising(exc)})
        subj['__providedBy__=3, __provides__ raises ' + label] = K3()
        # a __providedBy__ that is not a specification, and whose ``extends``
        # (the attribute that is probed to find that out) raises
        Probe = type('Probe' + label, (), {'extends': raising(exc)})
        K5 = type('KPE' + label, (), {'__providedBy__': Probe()})
        subj['__providedBy__.extends raises ' + label] = K5()
        K4 = type('KPC' + label, (), {'__class__': raising(exc)})
        try:
            subj['__class__ raises ' + label] = K4()
        except Exception:
            pass
    subj['old-style tuple __implemented__'] = type('KT', (), {'__implemented__': (I0, (I1,))})
    subj['builtin int'] = 5
    subj['builtin type int'] = int
    subj['builtin dict'] = {}
    subj['function'] = implementer(I0)(lambda: None)
    subj['plain function'] = (lambda: None)
    subj['noncallable str'] = 'abc'
    subj['None'] = None
    subj['super'] = super(A, subj['dp'])
    subj['unhashable'] = [1]
    subj['module'] = itertools
    subj['Interface'] = Interface
    subj['I1'] = I1
    subj['implementedBy(A)'] = implementedBy(A)
    subj['slots'] = type('S', (), {'__slots__': ()})()
    subj['slots+provides'] = type('S2', (), {'__slots__': ('__provides__',)})()
    return I0, I1, A, subj


def _call(out, label, f):
    try:
        r = f()
        out.append((label, _render(r)))
    except BaseException as e:
        out.append((label, 'EXC:' + type(e).__name__))


def _render(r):
    from zope.interface.interface import Specification
    if isinstance(r, Specification):
        try:
            return ('spec', type(r).__name__, [getattr(x, '__name__', '?') for x in r.flattened()])
        except Exception as e:
            return ('spec', type(r).__name__, 'EXC:' + type(e).__name__)
    if isinstance(r, (list, tuple)):
        return tuple(_render(x) for x in r)
    if isinstance(r, (bool, int, str, type(None))):
        return r
    return type(r).__name__


def prog_odd(arg):
    from zope.interface import (providedBy, implementedBy, directlyProvidedBy, directlyProvides,
                                alsoProvides, noLongerProvides, classImplements, Interface)
    from zope.interface.adapter import AdapterRegistry, VerifyingAdapterRegistry
    from zope.interface.interface import adapter_hooks
    part = arg
    I0, I1, A, subj = odd_values()
    out = []
    names = sorted(subj)
    for k in names[part::4]:
        x = subj[k]
        _call(out, k + ':providedBy', lambda: providedBy(x))
        _call(out, k + ':implementedBy', lambda: implementedBy(x))
        _call(out, k + ':directlyProvidedBy', lambda: directlyProvidedBy(x))
        _call(out, k + ':I0.providedBy', lambda: I0.providedBy(x))
        _call(out, k + ':I1.providedBy', lambda: I1.providedBy(x))
        _call(out, k + ':I0.implementedBy', lambda: I0.implementedBy(x))
        _call(out, k + ':I1(x, None)', lambda: I1(x, None))
        _call(out, k + ':I0(x)', lambda: I0(x))
        _call(out, k + ':I0.isOrExtends', lambda: I0.isOrExtends(x))
        _call(out, k + ':I1.extends', lambda: I1.extends(x))
        _call(out, k + ':I1==', lambda: I1 == x)
        _call(out, k + ':I1!=', lambda: I1 != x)
        _call(out, k + ':I1<', lambda: I1 < x)
        _call(out, k + ':I1>=', lambda: I1 >= x)
        _call(out, k + ':x in decl', lambda: x in implementedBy(A))
        for cls in (AdapterRegistry, VerifyingAdapterRegistry):
            reg = cls()
            reg.register([I0], I1, '', lambda o: ('adapted', type(o).__name__))
            reg.subscribe([I0], I1, lambda o: ('sub', type(o).__name__))
            _call(out, k + ':queryAdapter', lambda: reg.queryAdapter(x, I1))
            _call(out, k + ':adapter_hook', lambda: reg.adapter_hook(I1, x))
            _call(out, k + ':adapter_hook-default', lambda: reg.adapter_hook(I1, x, '', 'D'))
            _call(out, k + ':queryMultiAdapter', lambda: reg.queryMultiAdapter((x,), I1))
            _call(out, k + ':subscribers', lambda: reg.subscribers((x,), I1))
            _call(out, k + ':lookup(required=x)', lambda: reg.lookup(x, I1))
            _call(out, k + ':lookup([x])', lambda: reg.lookup([x], I1))
            _call(out, k + ':lookup1(x)', lambda: reg.lookup1(x, I1))
            _call(out, k + ':lookup(name=x)', lambda: reg.lookup([I0], I1, x))
            _call(out, k + ':lookup(provided=x)', lambda: reg.lookup([I0], x))
            _call(out, k + ':lookupAll([x])', lambda: sorted(reg.lookupAll([x], I1)))
            _call(out, k + ':subscriptions([x])', lambda: reg.subscriptions([x], I1))
            _call(out, k + ':lookup(iter)', lambda: reg.lookup(iter([I0]), I1))
            _call(out, k + ':lookup(default=x)', lambda: reg.lookup([I1], I0, '', x) is x)
            _call(out, k + ':register(required=[x])', lambda: reg.register([x], I1, '', 1))
            saved = list(adapter_hooks)
            adapter_hooks[:] = [reg.adapter_hook]
            try:
                _call(out, k + ':I1(x) via hook', lambda: I1(x))
            finally:
                adapter_hooks[:] = saved
        # mutators last
        _call(out, k + ':alsoProvides', lambda: alsoProvides(x, I1))
        _call(out, k + ':providedBy-after', lambda: providedBy(x))
        _call(out, k + ':noLongerProvides', lambda: noLongerProvides(x, I1))
        _call(out, k + ':directlyProvides', lambda: directlyProvides(x, I0))
        _call(out, k + ':providedBy-after2', lambda: providedBy(x))
        _call(out, k + ':classImplements', lambda: classImplements(x, I1))
        _call(out, k + ':implementedBy-after', lambda: implementedBy(x))
    return out


class MsgId(str):
    """A str subclass (an i18n message id, say) is a string."""


ODD_NAMES = [b'', b'n', 0, 1, None, (), ('',), False, 0.0, 1.5, [], ['x'], {}, frozenset(),
             'n', '', '\xe9', 'x' * 50, MsgId('n'), MsgId('')]


def prog_names(arg):
    """Every name-taking entry point with non-string (falsy and truthy,
    hashable and unhashable) names, on a cold cache and after the caches for
    the key were filled under the names '' and 'n'."""
    from zope.interface import Interface, implementer, providedBy
    from zope.interface.interface import InterfaceClass
    from zope.interface.adapter import AdapterRegistry, VerifyingAdapterRegistry
    from zope.interface.registry import Components
    flavour, warm = arg
    newworld()
    I0 = InterfaceClass('I0', (Interface,), {'__module__': wmod()})
    I1 = InterfaceClass('I1', (Interface,), {'__module__': wmod()})
    A = implementer(I0)(type('A', (), {}))
    ob = A()
    out = []
    for nm_ in ODD_NAMES:
        label = repr(nm_)[:12]
        reg = (AdapterRegistry if flavour == 'adapter' else VerifyingAdapterRegistry)()
        reg.register([I0], I1, '', lambda o: ('adapted', ''))
        reg.register([I0], I1, 'n', lambda o: ('adapted', 'n'))
        reg.register([I0, I0], I1, '', lambda o, p: ('adapted2', ''))
        if warm:
            for w in ('', 'n'):
                reg.lookup([providedBy(ob)], I1, w)
                reg.lookup1(providedBy(ob), I1, w)
                reg.queryAdapter(ob, I1, w)
                reg.adapter_hook(I1, ob, w)
                reg.queryMultiAdapter((ob, ob), I1, w)
        spec = providedBy(ob)
        _call(out, label + ':lookup', lambda: reg.lookup([spec], I1, nm_, 'D'))
        _call(out, label + ':lookup-kw', lambda: reg.lookup([spec], I1, name=nm_))
        _call(out, label + ':lookup1', lambda: reg.lookup1(spec, I1, nm_, 'D'))
        _call(out, label + ':lookup2', lambda: reg.lookup([spec, spec], I1, nm_, 'D'))
        _call(out, label + ':queryAdapter', lambda: reg.queryAdapter(ob, I1, nm_, 'D'))
        _call(out, label + ':adapter_hook', lambda: reg.adapter_hook(I1, ob, nm_, 'D'))
        _call(out, label + ':queryMultiAdapter', lambda: reg.queryMultiAdapter((ob, ob), I1, nm_, 'D'))
        _call(out, label + ':registered', lambda: reg.registered([I0], I1, nm_) is not None)
        _call(out, label + ':register', lambda: reg.register([I0], I1, nm_, 'v'))
        _call(out, label + ':lookup-after', lambda: reg.lookup([spec], I1, '', 'D') == 'v')
        _call(out, label + ':unregister', lambda: reg.unregister([I0], I1, nm_))
        if flavour == 'adapter':
            c = Components()
            _call(out, label + ':registerUtility', lambda: c.registerUtility(ob, I0, nm_))
            _call(out, label + ':queryUtility', lambda: c.queryUtility(I0, nm_, 'D') is ob)
            _call(out, label + ':registerAdapter', lambda: c.registerAdapter(A, [I0], I1, nm_))
            _call(out, label + ':queryAdapter', lambda: type(c.queryAdapter(ob, I1, nm_, 'D')).__name__)
    return out


def prog_shapes(arg):
    """Call shapes and result identity of the lookup entry points: every
    parameter given by position and by keyword (the documented names), and
    what a caller sees who holds on to a result, changes it in place and asks
    again."""
    from zope.interface import Interface, implementer, providedBy
    from zope.interface.interface import InterfaceClass
    from zope.interface.adapter import AdapterRegistry, VerifyingAdapterRegistry
    flavour, warm = arg
    newworld()
    I0 = InterfaceClass('I0', (Interface,), {'__module__': wmod()})
    I1 = InterfaceClass('I1', (Interface,), {'__module__': wmod()})
    A = implementer(I0)(type('A', (), {}))
    ob = A()
    cls = AdapterRegistry if flavour == 'adapter' else VerifyingAdapterRegistry
    base = cls()
    reg = cls((base,))
    reg.register([I0], I1, '', lambda o: ('adapted', ''))
    base.register([I0], I1, 'n', lambda o: ('adapted', 'n'))
    reg.register([I0, I0], I1, '', lambda o, p: ('adapted2', ''))
    for t in ('s1', 's2', 's3'):
        reg.subscribe([I0], I1, (lambda t: (lambda o: t))(t))
    spec = providedBy(ob)
    out = []
    if warm:
        reg.lookup([spec], I1, '')
        reg.lookupAll([spec], I1)
        reg.subscriptions([spec], I1)
    fac = lambda f: f(ob) if callable(f) else f
    _call(out, 'lookup/kw', lambda: fac(reg.lookup(required=[spec], provided=I1, name='', default='D')))
    _call(out, 'lookup/kw2', lambda: fac(reg.lookup([spec], provided=I1, name='n')))
    _call(out, 'lookup/kw3', lambda: fac(reg.lookup([spec], I1, default='D', name='zz')))
    _call(out, 'lookup1/kw', lambda: fac(reg.lookup1(required=spec, provided=I1, name='', default='D')))
    _call(out, 'lookup1/kw2', lambda: fac(reg.lookup1(spec, provided=I1, name='n')))
    _call(out, 'lookupAll/kw', lambda: sorted(n for n, _ in reg.lookupAll(required=[spec], provided=I1)))
    _call(out, 'lookupAll/kw2', lambda: sorted(n for n, _ in reg.lookupAll([spec], provided=I1)))
    _call(out, 'subscriptions/kw', lambda: len(reg.subscriptions(required=[spec], provided=I1)))
    _call(out, 'subscriptions/kw2', lambda: len(reg.subscriptions([spec], provided=I1)))
    _call(out, 'queryAdapter/kw', lambda: reg.queryAdapter(object=ob, provided=I1, name='', default='D'))
    _call(out, 'queryAdapter/kw2', lambda: reg.queryAdapter(ob, provided=I1, name='n'))
    _call(out, 'queryAdapter/kw3', lambda: reg.queryAdapter(ob, I1, default='D', name='zz'))
    _call(out, 'queryAdapter/kw4', lambda: reg.queryAdapter(provided=I1, object=ob))
    _call(out, 'adapter_hook/kw', lambda: reg.adapter_hook(provided=I1, object=ob, name='', default='D'))
    _call(out, 'adapter_hook/kw2', lambda: reg.adapter_hook(I1, object=ob, name='n'))
    _call(out, 'adapter_hook/kw3', lambda: reg.adapter_hook(object=ob, provided=I1))
    _call(out, 'queryMultiAdapter/kw', lambda: reg.queryMultiAdapter(objects=(ob, ob), provided=I1, name='', default='D'))
    _call(out, 'subscribers/kw', lambda: sorted(reg.subscribers(objects=(ob,), provided=I1)))
    _call(out, 'names/kw', lambda: sorted(reg.names(required=[spec], provided=I1)))
    # result identity, and in-place changes of a result by its caller
    s1 = reg.subscriptions([spec], I1)
    s2 = reg.subscriptions([spec], I1)
    out.append(('subscriptions/same-object-twice', s1 is s2, type(s1).__name__))
    if isinstance(s1, list):
        s1.reverse()
        s1.pop()
    _call(out, 'subscriptions/after-caller-changed-its-result', lambda: [f(ob) for f in reg.subscriptions([spec], I1)])
    _call(out, 'subscribers/after-caller-changed-its-result', lambda: list(reg.subscribers((ob,), I1)))
    a1 = reg.lookupAll([spec], I1)
    a2 = reg.lookupAll([spec], I1)
    out.append(('lookupAll/same-object-twice', a1 is a2, type(a1).__name__))
    l1 = reg.lookup([spec], I1, '')
    out.append(('lookup/same-object-twice', l1 is reg.lookup([spec], I1, ''), l1 is reg.lookup1(spec, I1, '')))
    return out


def prog_c05(arg):
    """One shard of C05's shape-enumerated histories (lookups interleaved with
    mutations on one live registry: this is where caches can go stale in one
    implementation only)."""
    m = _m('c05')
    flavour, shape, part, nparts = arg
    out = []
    for h in m.histories(shape, part, nparts):
        out.append((h, m.trace_hist(flavour, h)))
    return out


PROGS = {'c05': prog_c05, 'names': prog_names, 'c04': prog_c04, 'c08': prog_c08, 'c14': prog_c14, 'c19': prog_c19, 'c20': prog_c20,
         'odd': prog_odd, 'shapes': prog_shapes}


def run_programs(arg):
    kind, items, full = arg
    f = PROGS[kind]
    out = []
    for i, it in enumerate(items):
        try:
            r = f(it)
        except BaseException as e:
            r = 'EXC:' + type(e).__name__
        out.append(r if full else _dig(r))
        if i % 200 == 0:
            gc.collect()
    gc.collect()
    return out


def _t(x):
    return tuple(_t(y) for y in x) if isinstance(x, (list, tuple)) else x


def replay(case):
    """Runs in one implementation: reproduces iff the trace differs from the
    one recorded for the other implementation."""
    if case['what'] == 'e1':
        r = trace_chunk((case['mod'], case['cfg'], [_t(case['hist'])[:-1]], True))
        ops_fn, _ = E1[case['mod']]
        ops = ops_fn(case['cfg'], _t(case['hist'])[:-1])
        idx = ops.index(_t(case['hist'])[-1])
        mine = r[idx][2]
    else:
        mine = run_programs((case['kind'], [_t(case['item'])], True))[0]
        if case.get('step') is not None:
            mine = mine[case['step']]
    if repr(mine) != case['other_impl_repr']:
        return dict(this_implementation=repr(mine)[:1500], other_implementation=case['other_impl_repr'][:1500])
    return None


def first_diff(a, b):
    if isinstance(a, (list, tuple)) and isinstance(b, (list, tuple)):
        for i, (x, y) in enumerate(zip(a, b)):
            if repr(x) != repr(y):
                return i, x, y
        if len(a) != len(b):
            return min(len(a), len(b)), None, None
    return None, a, b


def run(ctx):
    from ..runner import finish, chunks
    from ..pool import NPROC
    quick = ctx.tier == 'quick'
    nprog = 0
    ndiff_checked = 0

    def report(what, label, sigpart, case, d_c, d_py):
        ctx.violation(dict(sig='C10:%s:%s' % (label, sigpart), impl='py',
                           case=dict(case, other_impl_repr=repr(d_c)),
                           detail=dict(program=case, c_accelerator=repr(d_c)[:1200],
                                       python_reference=repr(d_py)[:1200])))

    # (a) lock-step BFS
    e1_plans = [
        ('c01', dict(_m('c01').CFG['tree']), 2 if quick else 3),
        ('c02', dict(oracle='c02', maxb=2), 2 if quick else 3),
        ('c06', dict(kind='adapter', nreg=3, maxb=2), 3 if quick else 5),
        ('c06', dict(kind='verifying', nreg=3, maxb=2), 3 if quick else 5),
        ('c07', dict(flavour='adapter', keyidx=[2, 3, 5, 7, 10, 11]), 2 if quick else 3),
        ('c09', dict(flavour='adapter', keyidx=[0, 1, 2, 3, 4, 5, 6]), 2 if quick else 3),
        ('c16', dict(), 2 if quick else 3),
    ]
    for mod, cfg, depth in e1_plans:
        frontier = [()]
        seen = set()
        for d in range(1, depth + 1):
            size = max(1, min(200, len(frontier) // (NPROC * 3) + 1))
            parts = chunks(frontier, size)
            rc = ctx.map('c', 'trace_chunk', [(mod, cfg, p, False) for p in parts])
            rp = ctx.map('py', 'trace_chunk', [(mod, cfg, p, False) for p in parts])
            ops_fn = E1[mod][0]
            nxt = []
            for part, a, b in zip(parts, rc, rp):
                nprog += len(a)
                if [x[0] for x in a] != [x[0] for x in b]:
                    # locate the first divergent history of this chunk
                    fa = ctx.pool('c').call('c10', 'trace_chunk', (mod, cfg, part, True))
                    fb = ctx.pool('py').call('c10', 'trace_chunk', (mod, cfg, part, True))
                    hh_list = [tuple(h) + (op,) for h in part for op in ops_fn(cfg, h)]
                    for hh, x, y in zip(hh_list, fa, fb):
                        ndiff_checked += 1
                        if x[0] != y[0]:
                            i, p, q = first_diff(x[2], y[2])
                            report('e1', mod, 'history', dict(what='e1', mod=mod, cfg=cfg, hist=hh), x[2], y[2])
                            break
                hi = 0
                for h in part:
                    for op in ops_fn(cfg, h):
                        o, k, _ = a[hi]
                        hi += 1
                        if k is not None and k not in seen:
                            seen.add(k)
                            nxt.append(tuple(h) + (op,))
            frontier = nxt
            ctx.log('lockstep', mod, cfg.get('kind', cfg.get('flavour', '')), 'depth', d,
                    'states', len(seen), 'programs', nprog)
            if ctx.unknown_viol():
                break
        ctx.info['lockstep/%s/%s' % (mod, cfg.get('kind', cfg.get('flavour', '')))] = dict(
            depth=depth, states=len(seen))
        ctx.add(states=len(seen))
    # (b) E2 program sets with exact comparison
    c04 = _m('c04')
    k1 = c04.key_universe((1,))
    allk = c04.key_universe((0, 1, 2), small=True)
    sets = []
    regs4 = [c for s in (1, 2) for c in c04.contents_of_size(allk[::2] if quick else allk, s, (0, 1))]
    sets.append(('c04', [('adapter', 'chain', c) for c in regs4] +
                 [('verifying', 'fork', c) for c in c04.contents_of_size(k1[::3], 2, (0, 1, 2))]))
    c08items = []
    for size in range(0, 3):
        for combo in itertools.combinations(range(7), size):
            for vals in itertools.product(range(3), repeat=size):
                c08items.append(('adapter' if (len(c08items) % 2 == 0) else 'verifying', combo, vals))
    sets.append(('c08', c08items if not quick else c08items[::3]))
    c14 = _m('c14')
    sets.append(('c14', c14.call_cases(2)))
    c19 = _m('c19')
    items19 = []
    for shape in ('chain', 'diamond', 'mixin'):
        O = c19.ops(shape)
        pres = list(itertools.product(O, repeat=2))
        if quick:
            pres = pres[::5]
        for pre in pres:
            for post in O[::3] if quick else O:
                items19.append((shape, pre, post))
    sets.append(('c19', items19))
    c20 = _m('c20')
    arglists = [c for n in range(0, 4) for c in itertools.product(c20.NAMES, repeat=n)]
    small = [a for a in arglists if len(a) <= 2]
    sets.append(('c20', [(a, b) for a in small for b in arglists]))
    n5 = NPROC * 4
    sets.append(('c05', [(f, sh, k, n5) for f in ('adapter', 'verifying')
                         for sh in (('LML',) if quick else ('LML', 'WMWML')) for k in range(n5)]))
    sets.append(('odd', [0, 1, 2, 3]))
    sets.append(('names', [(f, w) for f in ('adapter', 'verifying') for w in (False, True)]))
    sets.append(('shapes', [(f, w) for f in ('adapter', 'verifying') for w in (False, True)]))
    for kind, items in sets:
        size = 1 if kind in ('odd', 'names', 'shapes', 'c05') else max(20, len(items) // (NPROC * 4))
        parts = chunks(items, size)
        rc = ctx.map('c', 'run_programs', [(kind, p, kind == 'odd') for p in parts])
        rp = ctx.map('py', 'run_programs', [(kind, p, kind == 'odd') for p in parts])
        for part, a, b in zip(parts, rc, rp):
            nprog += len(a)
            if a == b:
                continue
            if kind != 'odd':
                a = ctx.pool('c').call('c10', 'run_programs', (kind, part, True))
                b = ctx.pool('py').call('c10', 'run_programs', (kind, part, True))
            for it, x, y in zip(part, a, b):
                ndiff_checked += 1
                if repr(x) != repr(y):
                    i, p, q = first_diff(x, y)
                    if kind == 'odd':
                        # every divergent step is its own finding
                        for j, (sx, sy) in enumerate(zip(x, y)):
                            if repr(sx) != repr(sy):
                                report('prog', 'odd', sx[0].split(':', 1)[1] + ':' + _odd_class(sx[0]),
                                       dict(what='prog', kind=kind, item=it, step=j), sx, sy)
                    elif kind == 'c05' and i is not None and p is not None and q is not None:
                        # report the first divergent history of the shard
                        report('prog', kind, 'history', dict(what='prog', kind=kind, item=it, step=i), p, q)
                        break
                    else:
                        report('prog', kind, 'program', dict(what='prog', kind=kind, item=it), x, y)
                        break
        ctx.info['programs/' + kind] = len(items)
        ctx.log('programs', kind, len(items))
    ctx.count['programs'] = nprog
    ctx.count['disagreements_checked'] = ndiff_checked
    ctx.count['evaluations'] = nprog
    ctx.count['transitions'] = nprog
    ctx.count['traces_validated_against_impl'] = 2 * nprog
    ctx.count['distinct_nontrivial'] = ctx.count['states']
    ctx.sample(dict(lockstep='c06', history=[('bases', 'r0', ('r1',)), ('reg', 'r1'), ('look', 'r0')]))
    ctx.sample(dict(odd_values_subjects=sorted(odd_values()[3])[:12]))
    ctx.assumptions += ['"any program" is the union of the bounded alphabets listed in the evidence; exception messages are not compared, only exception types']
    return finish(
        ctx, 'model_checking',
        'the same enumerated programs are executed under the C accelerator and under PURE_PYTHON=1 in separate processes and their API observations compared step by step: lock-step BFS over the history alphabets of C01/C02/C06/C07/C09/C16, complete input enumerations of C04/C08/C14/C19/C20 with exact result comparison, and an odd-values alphabet (unusual __provides__/__providedBy__/__implemented__/__class__, builtins, super, unhashable and non-string arguments) through every public entry point',
        'programs = histories / inputs executed in both implementations; states = distinct canonical states of the lock-step searches')


def _odd_class(label):
    """Class of the subject (operand kind) for the finding signature."""
    subj = label.split(':', 1)[0]
    return subj.replace(' ', '_')
