"""Reference models for adapter registries, shared by C04-C09, C16, C19.
Everything here is brute force over a plain list of registrations."""
from zope.interface import Interface


def conv(r):
    return Interface if r is None else r


def lookup_winners(ro_index, contents, required, provided, name):
    """contents: iterable of (registry id, required tuple, provided, name, value).
    ro_index: registry id -> position in the looking-up registry's resolution
    order (absent = not reachable). Returns the set of acceptable values by
    id, or None if no registration applies."""
    cands = []
    for (ri, req, prov, nm, val) in contents:
        if ri not in ro_index or nm != name or len(req) != len(required):
            continue
        if not prov.isOrExtends(provided):
            continue
        pos = []
        for r, s in zip(req, required):
            r = conv(r)
            sro = s.__sro__
            for k, x in enumerate(sro):
                if x is r:
                    pos.append(k)
                    break
            else:
                pos = None
                break
        if pos is not None:
            cands.append(((ro_index[ri], tuple(pos)), prov, val))
    if not cands:
        return None
    best = min(c[0] for c in cands)
    top = [c for c in cands if c[0] == best]
    # most general provided interface; two incomparable ones are an ambiguity
    # the property does not resolve: either is accepted
    return [c[2] for c in top
            if not any(o is not c and c[1] is not o[1] and c[1].extends(o[1]) for o in top)]


def applicable_subscriptions(ro_index, contents, required, provided):
    """contents: list of (registry id, required tuple, provided-or-None, value)
    in subscription order. Returns the list of applicable entries (same
    tuples), order unspecified."""
    out = []
    for ent in contents:
        ri, req, prov, val = ent
        if ri not in ro_index or len(req) != len(required):
            continue
        if provided is None:
            if prov is not None:
                continue
        else:
            if prov is None or not prov.isOrExtends(provided):
                continue
        ok = True
        for r, s in zip(req, required):
            if not s.isOrExtends(conv(r)):
                ok = False
                break
        if ok:
            out.append(ent)
    return out


def _n(x):
    if x is None:
        return 'None'
    return getattr(x, '__name__', None) or repr(x)


def _render(d, depth, leaf):
    if depth == 0:
        return leaf(d)
    return tuple(sorted((_n(k) if not isinstance(k, str) else 's:' + k,
                         _render(v, depth - 1, leaf)) for k, v in d.items()))


def registry_digest(reg, val=repr):
    """Canonical rendering of a BaseAdapterRegistry's hidden state (nested
    containers, provided counts, extendors), for state merging only."""
    out = []
    for i, byorder in enumerate(reg._adapters):
        # byorder: {required...: {provided: {name: value}}}
        out.append(('A', i, _render(byorder, i + 2, val)))
    for i, byorder in enumerate(reg._subscribers):
        out.append(('S', i, _render(byorder, i + 2, lambda l: tuple(val(x) for x in l))))
    out.append(tuple(sorted((_n(k), c) for k, c in reg._provided.items())))
    lk = getattr(reg, '_v_lookup', None)
    ext = getattr(lk, '_extendors', None)
    if ext is not None:
        out.append(tuple(sorted((_n(k), tuple(_n(x) for x in v)) for k, v in ext.items())))
    return tuple(out)
