"""C11, independent oracle for "memory is never corrupted": the enumerated
injection scenarios, *unpinned* (no harness reference keeps a container alive),
executed by the C implementation under valgrind's memcheck with
PYTHONMALLOC=malloc (so that every object is its own heap block and a freed
dict is really freed). This process is the one valgrind runs."""
import gc
import os
import pickle
import sys


def main(path):
    sys.path.insert(0, os.path.dirname(os.path.dirname(os.path.dirname(os.path.abspath(__file__)))))
    from vlib import boot
    boot.worker_init(os.environ['VERIF_STAGE'])
    from vlib.props import c11
    with open(path, 'rb') as f:
        cases = pickle.load(f)
    fired = 0
    for i, case in enumerate(cases):
        sys.stderr.write('@@SCENARIO %d\n' % i)
        sys.stderr.flush()
        try:
            v, f = c11.scenario(tuple(case), light=True)
        except c11.Injected:
            f = True
        fired += bool(f)
        gc.collect()
    sys.stderr.write('@@DONE %d\n' % fired)
    sys.stderr.flush()


if __name__ == '__main__':
    main(sys.argv[1])
