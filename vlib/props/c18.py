"""C18 — method descriptions mirror the described function's real signature.

E2: every signature with <= 2 positional-only, <= 2 positional-or-keyword
parameters, every defaults suffix, *args or bare *, <= 2 keyword-only
parameters, **kw, with/without local variables; described through
fromFunction, fromMethod, an interface body and the ABCInterfaceClass path.
Oracle: inspect.signature.
"""
import abc
import inspect
import itertools
import types

from zope.interface import Interface
from zope.interface.interface import fromFunction, fromMethod, InterfaceClass, Method
from zope.interface.common import ABCInterfaceClass, ABCInterface
from .common import wmod, newworld

P = inspect.Parameter
KINDS = ('function', 'method', 'body', 'abc', 'abc-noself', 'method-noself',
         'unbound', 'unbound-noself')
# default values: not only numbers (a tuple is what %-formatting trips over)
DEFAULTS = [0, (), (7,), 'two', None, (1, 2), 1.5, [3]]


def signatures(maxpo=2, maxpk=2, maxko=2):
    for npo, npk in itertools.product(range(maxpo + 1), range(maxpk + 1)):
        npos = npo + npk
        for nd in range(npos + 2):        # npos + 1: even a leading self has a default
            for star in ('', '*args', '*'):
                for nko in range(maxko + 1):
                    if star == '*' and nko == 0:
                        continue
                    if star == '' and nko:
                        continue
                    for kod in itertools.product((0, 1), repeat=nko):
                        for kw in (0, 1):
                            for loc in (0, 1):
                                yield (npo, npk, nd, star, nko, kod, kw, loc)


RECEIVERS = ['self', 'this', 'cls', '_self']      # the instance parameter need not be called self


def source(sig, self_):
    npo, npk, nd, star, nko, kod, kw, loc = sig
    names = ['p%d' % i for i in range(npo)] + ['q%d' % i for i in range(npk)]
    if self_:
        names.insert(0, RECEIVERS[(npo + 2 * npk + nd) % len(RECEIVERS)])
        if npo:
            npo += 1
    parts = []
    nd = min(nd, len(names))
    for i, nm in enumerate(names):
        parts.append(nm + ('=' + repr(DEFAULTS[i % len(DEFAULTS)]) if i >= len(names) - nd else ''))
        if i == npo - 1:
            parts.append('/')
    if star:
        parts.append(star)
    for i in range(nko):
        parts.append('k%d' % i + ('=%d' % (10 + i) if kod[i] else ''))
    if kw:
        parts.append('**kwds')
    return 'def f(%s):\n %s\n return 1' % (', '.join(parts), 'local_var = 1' if loc else 'pass')


def expected(sig, drop_first):
    ps = list(sig.parameters.values())
    pos = [p for p in ps if p.kind in (P.POSITIONAL_ONLY, P.POSITIONAL_OR_KEYWORD)]
    if drop_first:
        pos = pos[1:]
    return {'positional': tuple(p.name for p in pos),
            'required': tuple(p.name for p in pos if p.default is P.empty),
            'optional': {p.name: p.default for p in pos if p.default is not P.empty},
            'varargs': next((p.name for p in ps if p.kind is P.VAR_POSITIONAL), None),
            'kwargs': next((p.name for p in ps if p.kind is P.VAR_KEYWORD), None)}


def sigstring(exp):
    return '(' + ', '.join(
        [nm + ('=' + repr(exp['optional'][nm]) if nm in exp['optional'] else '')
         for nm in exp['positional']] +
        (['*' + exp['varargs']] if exp['varargs'] else []) +
        (['**' + exp['kwargs']] if exp['kwargs'] else [])) + ')'


def eval_one(sig, kind):
    self_ = kind in ('method', 'abc', 'unbound')
    npos = sig[0] + sig[1]
    if sig[2] > npos and not self_:
        return 'skip', None          # one default more than parameters: self kinds only
    if kind in ('abc-noself', 'method-noself', 'unbound-noself'):
        # a method that takes its instance through *args
        if npos or sig[3] != '*args':
            return 'skip', None
    newworld()
    src = source(sig, self_)
    d = {}
    try:
        exec(src, d)
    except SyntaxError:
        return 'skip', None
    f = d['f']
    if f.__defaults__:
        # a sibling made from the *same code object* with other defaults (what a
        # factory function produces) is described first: nothing of it may stick
        sib = types.FunctionType(f.__code__, f.__globals__, 'f',
                                 tuple(('sibling', i) for i in range(len(f.__defaults__))))
        sib.__kwdefaults__ = f.__kwdefaults__
        fromFunction(sib)
        fromFunction(sib, imlevel=1) if self_ else None
    f.tagged = 'yes'
    f.other = (1, 2)
    if kind == 'function':
        m = fromFunction(f)
        exp = expected(inspect.signature(f), False)
    elif kind in ('method', 'method-noself'):
        K = type('K', (), {'f': f})
        bound = K().f
        m = fromMethod(bound)
        exp = expected(inspect.signature(bound), False)
    elif kind in ('unbound', 'unbound-noself'):
        # the way verifyClass describes a function found on a class: the first
        # positional parameter, if there is one, is the instance
        m = fromFunction(f, imlevel=1)
        exp = expected(inspect.signature(f), kind == 'unbound')
    elif kind == 'body':
        I = InterfaceClass('IBody', (Interface,), {'f': f, '__module__': wmod()})
        m = I['f']
        exp = expected(inspect.signature(f), False)
    else:
        A = abc.ABCMeta('Abc', (), {'f': f, '__module__': wmod()})
        I = ABCInterfaceClass('IAbc', (ABCInterface,), {'abc': A, '__module__': wmod()})
        m = I['f']
        exp = expected(inspect.signature(f), kind == 'abc')
    if not isinstance(m, Method):
        return ('not-a-Method', kind, src.split('\n')[0]), None
    info = m.getSignatureInfo()
    head = src.split('\n')[0]
    if info != exp:
        diff = sorted(k for k in exp if info.get(k) != exp[k])
        return ('getSignatureInfo:' + kind + ':' + '+'.join(diff), head, info, exp), exp
    s = sigstring(exp)
    if m.getSignatureString() != s:
        return ('getSignatureString:' + kind, head, m.getSignatureString(), s), exp
    if m.getTaggedValue('tagged') != 'yes' or m.getTaggedValue('other') != (1, 2) \
            or set(m.getTaggedValueTags()) != {'tagged', 'other'}:
        return ('tagged-values:' + kind, head), exp
    if m.getName() != 'f':
        return ('name:' + kind, head, m.getName()), exp
    return None, exp


def evaluate(arg):
    viol = []
    n = 0
    shapes = set()
    for sig, kind in arg:
        v, exp = eval_one(tuple(sig), kind)
        if v == 'skip':
            continue
        n += 1
        if exp is not None:
            shapes.add((len(exp['positional']), len(exp['required']),
                        exp['varargs'] is not None, exp['kwargs'] is not None, sig[4]))
        if v:
            viol.append(dict(sig='C18:' + v[0], case=dict(sig=sig, kind=kind),
                             detail=dict(violation=v)))
    return dict(n=n, viol=viol, shapes=sorted(shapes))


def replay(case):
    s = case['sig']
    s = tuple(tuple(x) if isinstance(x, list) else x for x in s)
    v, _ = eval_one(s, case['kind'])
    return dict(violation=v) if v and v != 'skip' else None


def run(ctx):
    from ..runner import finish, chunks
    quick = ctx.tier == 'quick'
    sigs = list(signatures(2, 2, 2) if quick else signatures(3, 3, 3))
    items = [(s, k) for s in sigs for k in KINDS]
    shapes = set()
    for impl in ('c', 'py'):
        res = ctx.map(impl, 'evaluate', chunks(items, 400))
        for r in res:
            ctx.add(evaluations=r['n'])
            for v in r['viol']:
                v['impl'] = impl
            ctx.violations(r['viol'])
            shapes.update(map(tuple, r['shapes']))
    ctx.count['distinct_nontrivial'] = len(shapes)
    ctx.count['states'] = len(items)
    ctx.count['transitions'] = ctx.count['evaluations']
    ctx.sample(dict(kind='function', source=source(sigs[len(sigs) // 2], False).split('\n')[0]))
    ctx.sample(dict(kind='method', source=source(sigs[-7], True).split('\n')[0]))
    return finish(
        ctx, 'model_checking',
        'every generated signature is compiled to a real function and described through fromFunction, fromMethod, an interface body and ABCInterfaceClass; getSignatureInfo/getSignatureString/tagged values are compared with inspect.signature',
        'full product of parameter-kind counts within the bounds; distinct_nontrivial = distinct (positional count, required count, has *args, has **kw, keyword-only count) shapes')
