"""C11 — lookups stay memory-safe and atomic when other code mutates the registry.

(a) Injection (fault_sequences): every call-out site of a lookup x every action
    from a menu of mutations / re-entrant lookups / gc / exceptions, with an
    ownership audit of the cache containers the interrupted frame is using,
    an atomicity oracle (before- or after-answer), a no-stale-survivor oracle
    and a leak check.
(b) Schedules: real threads under the cooperative scheduler of vlib.sched, all
    schedules up to a preemption bound, same oracles.
"""
import gc
import itertools
import os
import sys

from zope.interface import Interface, implementedBy, providedBy, classImplements
from zope.interface import adapter as _adapter
from zope.interface import interface as _interface
from zope.interface import declarations as _declarations
from zope.interface import ro as _ro
from zope.interface.interface import InterfaceClass, adapter_hooks
from zope.interface.adapter import (AdapterRegistry, VerifyingAdapterRegistry,
                                    AdapterLookup, VerifyingAdapterLookup)

from .common import wmod, newworld
from .. import sched

# the library's own locks become scheduler-aware (a real lock held by a
# pre-empted thread would block the only thread allowed to run)
ADOPTED_LOCKS = sched.adopt_locks(_adapter, _interface, _declarations)
IS_C = _adapter.LookupBase is not _adapter.LookupBaseFallback
WATCH = {_adapter.__file__, _interface.__file__, _declarations.__file__}
WATCH_RO = WATCH | {_ro.__file__}     # for the harnesses in which a resolution order is recomputed
SENT = object()


class Injected(Exception):
    pass


class F:
    """Factory / value token."""

    def __init__(self, tag, world=None):
        self.tag = tag
        self.world = world

    def __call__(self, *obs):
        if self.world is not None:
            self.world.fire('factory')
        return (self.tag,) + tuple(type(o).__name__ for o in obs)

    def __repr__(self):
        return 'F(%s)' % self.tag


def cache_dicts(lk):
    """The three cache dicts of a lookup object, whichever implementation."""
    if hasattr(lk, '_cache'):
        return [lk._cache, lk._mcache, lk._scache]
    inst = lk.__dict__
    out = []
    for d in gc.get_referents(lk):
        if type(d) is dict and d is not inst:
            out.append(d)
    return out


def inner_dicts(lk):
    """All dicts nested in the caches (the containers a lookup frame may be
    holding while it calls out)."""
    out = []
    todo = cache_dicts(lk)
    while todo:
        d = todo.pop()
        for v in d.values():
            if type(v) is dict:
                out.append(v)
                todo.append(v)
    return out


def _rc(lst, i):
    return sys.getrefcount(lst[i])


class DyingKey:
    """Equal to every other DyingKey for the same interface, and a
    specification as far as lookups are concerned."""

    def __init__(self, world, iface, fires):
        self.world, self.iface, self.fires = world, iface, fires

    __sro__ = property(lambda self: self.iface.__sro__)
    __iro__ = property(lambda self: self.iface.__iro__)

    def weakref(self, callback=None):
        import weakref
        return weakref.ref(self, callback)

    def subscribe(self, dependent):
        self.iface.subscribe(dependent)

    def unsubscribe(self, dependent):
        self.iface.unsubscribe(dependent)

    def __hash__(self):
        return hash(self.iface) ^ 1

    def __eq__(self, other):
        return isinstance(other, DyingKey) and other.iface is self.iface

    def __del__(self):
        if self.fires:
            try:
                self.world.fire('key-destructor')
            except BaseException as e:
                self.world.log.append(('destructor-raised', type(e).__name__))


class World:
    def __init__(self, flavour, site=None, action=None, audit=True, extendors=False):
        newworld()
        self.flavour = flavour
        self.site = site
        self.action = action
        self.armed = False
        self.fired = 0
        self.audit = audit
        self.generation_fails = 0
        self.keepkey = None
        self.pinned = []           # (dict, snapshot of contents, refcount after action)
        self.log = []
        W = self
        mk = lambda n, *b: InterfaceClass(n, b or (Interface,), {'__module__': wmod()})
        self.I0 = mk('I0')
        self.I1 = mk('I1', self.I0)
        self.X = mk('X')
        self.X2 = mk('X2')      # nobody depends on it yet
        self.P = mk('P')
        self.PN = mk('PN', self.P)     # nothing is registered for it at first
        base_lookup = AdapterLookup if flavour == 'adapter' else VerifyingAdapterLookup

        class AuditLookup(base_lookup):
            def _uncached_lookup(self, required, provided, name=''):
                W.fire('uncached_lookup:before')
                r = super()._uncached_lookup(required, provided, name)
                W.fire('uncached_lookup:after')
                return r

            def _uncached_lookupAll(self, required, provided):
                W.fire('uncached_lookupAll:before')
                r = super()._uncached_lookupAll(required, provided)
                W.fire('uncached_lookupAll:after')
                return r

            def _uncached_subscriptions(self, required, provided):
                W.fire('uncached_subscriptions:before')
                r = super()._uncached_subscriptions(required, provided)
                W.fire('uncached_subscriptions:after')
                return r
        regbase = AdapterRegistry if flavour == 'adapter' else VerifyingAdapterRegistry

        class Reg(regbase):
            LookupClass = AuditLookup

        class BaseReg(regbase):
            _gen = 0

            def _get_generation(self):
                if W.generation_fails:
                    W.generation_fails -= 1
                    raise Injected('reading _generation failed')
                W.fire('generation')
                return self._gen

            def _set_generation(self, v):
                self._gen = v
            _generation = property(_get_generation, _set_generation)
        self.base = BaseReg()
        self.base2 = BaseReg()
        self.base3 = BaseReg()      # not among the registry's bases at first
        self.other = regbase()
        self.reg = Reg((self.base, self.base2))
        self.fOLD = F('OLD', self)
        self.fNEW = F('NEW', self)
        self.reg.register([self.I0], self.P, '', self.fOLD)
        self.reg.subscribe([self.I0], self.P, F('S_OLD', self))
        self.base.register([self.I0], self.P, 'b', F('BASE', self))
        # the registry that is nobody's base at first has something to offer
        # under a name of its own: whoever starts to derive from it shows it
        self.other.register([self.I0], self.P, 'o', F('OTHER', self))
        self.other.subscribe([self.I0], self.P, F('S_OTHER', self))
        if extendors:
            # two more provided interfaces extending P, so that the list of
            # extendors walked by a lookup for P is [P, PA, PB]: PA belongs to an
            # unrelated registration (required X), the answer for name 'e' and one
            # subscriber are found under PB, i.e. *after* PA in that list
            self.PA = mk('PA', self.P)
            self.PB = mk('PB', self.P)
            # (a newly registered interface goes in front of the unrelated ones)
            self.reg.register([self.I0], self.PB, 'e', F('EB', self))
            self.reg.subscribe([self.I0], self.PB, F('S_B', self))
            self.reg.register([self.X], self.PA, '', F('XA', self))
            assert self.reg._v_lookup._extendors[self.P] == [self.P, self.PA, self.PB]

        class K:
            @property
            def __providedBy__(s):
                W.fire('providedBy')
                return implementedBy(K)

            def __conform__(s, iface):
                W.fire('conform')
                return None
        classImplements(K, self.I1)
        self.K = K
        self.ob = K()
        self.armed = site is not None

    # -- sites ---------------------------------------------------------------
    def fire(self, site):
        if not self.armed or site != self.site:
            return
        self.armed = False
        self.fired += 1
        lk = self.reg._v_lookup
        pins = []
        if self.audit:
            # Pin the containers the interrupted frame may be using so that a
            # stray write lands in live memory, then look at who owns them.
            pins = inner_dicts(lk)
            if not hasattr(lk, '_verify_ro'):
                for t in gc.get_referents(lk):
                    if type(t) is tuple and t and not isinstance(t[0], int):
                        pins.append(t)          # the _verify_ro snapshot
                t = None
            else:
                if isinstance(lk._verify_ro, (tuple, list)):
                    pins.append(lk._verify_ro)
            pins.append({})      # control: held by the harness exactly like the others
        try:
            self.do_action(self.action)
        finally:
            if pins:
                base = _rc(pins, len(pins) - 1)
                i = 0
                while i < len(pins) - 1:
                    # owners other than the harness at the moment of the call-out
                    owners = _rc(pins, i) - base
                    snap = dict(pins[i]) if type(pins[i]) is dict else None
                    self.pinned.append((pins[i], snap, owners))
                    i += 1

    def do_action(self, a):
        reg = self.reg
        if a == 'nop':
            pass
        elif a == 'register-better':
            reg.register([self.I1], self.P, '', self.fNEW)
        elif a == 'register-other-name':
            reg.register([self.I1], self.P, 'zz', self.fNEW)
        elif a == 'unregister-winner':
            reg.unregister([self.I0], self.P, '')
        elif a == 'subscribe':
            reg.subscribe([self.I1], self.P, F('S_NEW', self))
        elif a == 'unsubscribe':
            reg.unsubscribe([self.I0], self.P)
        elif a == 'register-in-base':
            # under the name only the base has ('b'): the registry's own
            # registration for '' would shadow anything the base adds there
            self.base.register([self.I1], self.P, 'b', self.fNEW)
        elif a == 'rebase-registry':
            reg.__bases__ = (self.base2,)
        elif a == 'rebase-interface':
            self.I1.__bases__ = (self.X,)
        elif a == 'changed':
            reg.changed(None)
        elif a == 'lookup.changed':
            reg._v_lookup.changed(None)
        elif a == 'reenter-same':
            self.log.append(('reentrant', repr(reg.lookup([self.I1], self.P, ''))))
        elif a == 'reenter-other':
            self.log.append(('reentrant', repr(reg.lookupAll([self.I0], self.P)),
                             repr(reg.subscriptions([self.I1], self.P)),
                             repr(reg.lookup([self.I1], self.P, 'b'))))
        elif a == 'reenter-then-register-in-base':
            # an answer is computed and cached by the re-entrant lookup, and only
            # then does a base registry change
            self.log.append(('reentrant', repr(reg.lookup([self.I1], self.P, 'b'))))
            self.base.register([self.I1], self.P, 'b', self.fNEW)
        elif a == 'gc':
            gc.collect()
        elif a == 'raise':
            raise Injected('injected')
        elif a == 'register-then-raise':
            reg.register([self.I1], self.P, '', self.fNEW)
            raise Injected('injected')
        elif a == 'changed-then-gc':
            reg.changed(None)
            gc.collect()
        elif a == 'rebase-while-generation-fails':
            # the registry gets other bases; the invalidation that ends the
            # assignment fails once while it reads a base's _generation
            self.generation_fails = 1
            try:
                reg.__bases__ = (self.base3,)
            finally:
                failed = not self.generation_fails
                self.generation_fails = 0
            if not failed:
                raise Injected('injected')
        elif a == 'register-while-generation-fails':
            # the mutation succeeds as far as the registry's contents go; the
            # invalidation that ends it fails once while it reads a base's
            # _generation (verifying registries), and the failure propagates
            self.generation_fails = 1
            try:
                reg.register([self.I1], self.P, '', self.fNEW)
            finally:
                failed = not self.generation_fails
                self.generation_fails = 0
            if not failed:
                raise Injected('injected')      # (non-verifying flavour: nothing read it)
        else:
            raise AssertionError(a)

    def apply_mutation_only(self, a):
        """The net mutation of an action (for the twin 'after' world)."""
        if a in ('nop', 'reenter-same', 'reenter-other', 'gc', 'raise', 'changed',
                 'lookup.changed', 'changed-then-gc'):
            return
        if a in ('register-then-raise', 'register-while-generation-fails'):
            a = 'register-better'
        if a == 'rebase-while-generation-fails':
            self.reg.__bases__ = (self.base3,)
            return
        if a == 'reenter-then-register-in-base':
            a = 'register-in-base'
        self.do_action(a)

    # -- entry points --------------------------------------------------------
    def call(self, entry, lazy=False):
        reg, I1, P = self.reg, self.I1, self.P
        W = self

        class Lazy:
            def __iter__(s):
                W.fire('required-iter')
                return iter((I1,))

            def __len__(s):
                return 1
        if lazy in ('twin', 'twin-keep'):
            # a one-shot iterable that is the only owner of the specification
            # it yields: a stand-in for I1 (what a declaration re-created for
            # the same class would be: equal to the one the caches know, not
            # identical) whose destructor is a call-out site
            if lazy == 'twin-keep':
                self.keepkey = self.keepkey or DyingKey(W, I1, False)
                req = (k for k in (self.keepkey,))
            else:
                req = (DyingKey(W, I1, True) for _ in (0,))
        else:
            req = Lazy() if lazy else [I1]
        if entry == 'lookup':
            return reg.lookup(req, P, '')
        if entry == 'lookup-default':
            return reg.lookup(req, P, 'nope', SENT) is SENT
        if entry == 'lookup-e':
            return reg.lookup(req, P, 'e')
        if entry == 'lookup-b':
            return reg.lookup(req, P, 'b')
        if entry == 'lookup-x2':
            return reg.lookup([self.X2], P, '')
        if entry == 'base-lookup-x2':
            # another registry's lookup object, the same specification
            return self.base.lookup([self.X2], P, 'b')
        if entry == 'lookup1':
            return reg.lookup1(I1, P, '')
        if entry == 'lookupAll':
            return sorted(reg.lookupAll(req, P), key=repr)
        if entry == 'names':
            return sorted(reg.names(req, P))
        if entry == 'subscriptions':
            return list(reg.subscriptions(req, P))
        if entry == 'queryAdapter':
            return reg.queryAdapter(self.ob, P, '')
        if entry == 'adapter_hook':
            return reg.adapter_hook(P, self.ob, '')
        if entry == 'queryMultiAdapter':
            return reg.queryMultiAdapter((self.ob,), P, '')
        if entry == 'subscribers':
            return reg.subscribers((self.ob,), P)
        if entry == 'I(obj)':
            saved = list(adapter_hooks)
            adapter_hooks[:] = [reg.adapter_hook]
            try:
                return P(self.ob, None)
            finally:
                adapter_hooks[:] = saved
        raise AssertionError(entry)


ENTRIES = ['lookup', 'lookup-default', 'lookup-b', 'lookup1', 'lookupAll', 'names', 'subscriptions',
           'queryAdapter', 'adapter_hook', 'queryMultiAdapter', 'subscribers', 'I(obj)']
LAZY_OK = {'lookup', 'lookup-default', 'lookup-b', 'lookupAll', 'names', 'subscriptions'}
ACTIONS = ['nop', 'register-better', 'register-other-name', 'unregister-winner', 'subscribe',
           'unsubscribe', 'register-in-base', 'rebase-registry', 'rebase-interface', 'changed',
           'lookup.changed', 'reenter-same', 'reenter-other', 'gc', 'raise',
           'register-then-raise', 'changed-then-gc', 'reenter-then-register-in-base',
           'register-while-generation-fails', 'rebase-while-generation-fails']
SITES = ['required-iter', 'providedBy', 'conform', 'factory', 'generation', 'value-destructor',
         'key-destructor',
         # the value dies inside the changed() of another kind of mutation (verifying
         # registries: it was removed from a base and lived on in the caches below)
         'value-destructor/subscribe-new-provided', 'value-destructor/register-new-provided',
         'value-destructor/unregister',
         'uncached_lookup:before', 'uncached_lookup:after',
         'uncached_lookupAll:before', 'uncached_lookupAll:after',
         'uncached_subscriptions:before', 'uncached_subscriptions:after']


def norm(x):
    if isinstance(x, (list, tuple)):
        return tuple(norm(y) for y in x)
    return repr(x)


DESTRUCTOR_ENTRIES = {
    'lookup': lambda w: w.reg.lookup([w.I1], w.P, 'd'),
    'lookup1': lambda w: w.reg.lookup1(w.I1, w.P, 'd'),
    'lookupAll': lambda w: sorted(w.reg.lookupAll([w.I1], w.P), key=repr),
    'queryAdapter': lambda w: w.reg.queryAdapter(w.ob, w.P, 'd'),
    'adapter_hook': lambda w: w.reg.adapter_hook(w.P, w.ob, 'd'),
    'queryMultiAdapter': lambda w: w.reg.queryMultiAdapter((w.ob,), w.P, 'd'),
}


def scenario_destructor(case, light=False, spec_first=False):
    """A registered value whose last reference is held by a lookup cache: it is
    replaced, changed() drops the caches, and the value's destructor runs in
    the middle of that and performs the action (a re-entrant lookup, a
    mutation, changed(), a collection ...)."""
    flavour, entry, site, action, warm = case
    if entry not in DESTRUCTOR_ENTRIES or action in ('raise', 'register-then-raise', 'register-while-generation-fails', 'rebase-while-generation-fails'):
        return None, False
    trigger = site.partition('/')[2]
    if trigger and flavour != 'verifying':
        return None, False      # only a verifying registry can hold a removed value in its caches
    w = World(flavour, 'value-destructor', action, audit=not light)
    w.armed = False
    TRIGGERS = {
        'subscribe-new-provided': lambda x: x.reg.subscribe([x.I0], x.PN, x.fNEW),
        'register-new-provided': lambda x: x.reg.register([x.I0], x.PN, '', x.fNEW),
        'unregister': lambda x: x.reg.unregister([x.I0], x.P, ''),
    }

    class DV:
        def __call__(s, *obs):
            return ('DV',)

        def __del__(s):
            try:
                w.fire('value-destructor')
            except BaseException as e:
                w.log.append(('destructor-raised', type(e).__name__, repr(e)[:120]))
    if trigger:
        w.base.register([w.I0], w.P, 'd', DV())     # a base owns the only reference
        w.base.subscribe([w.I0], w.P, w.base.registered([w.I0], w.P, 'd'))
        DESTRUCTOR_ENTRIES[entry](w)               # ... a cache of the registry below holds one
        w.reg.subscriptions([w.I1], w.P)           # (two, with the subscription cache)
        if warm:
            for e in ENTRIES:
                w.call(e, False)
        w.base.unsubscribe([w.I0], w.P, w.base.registered([w.I0], w.P, 'd'))
        w.base.unregister([w.I0], w.P, 'd')         # removed: only the caches below are left
        w.armed = True
        try:
            TRIGGERS[trigger](w)                    # their changed() drops the caches
        except Exception as e:
            return ('mutator-raised:' + type(e).__name__, repr(e)[:200]), bool(w.fired)
    else:
        w.reg.register([w.I0], w.P, 'd', DV())          # the registry owns the only reference
        DESTRUCTOR_ENTRIES[entry](w)                   # ... and now a cache holds one too
        if warm:
            for e in ENTRIES:
                w.call(e, False)
        w.armed = True
        try:
            w.reg.register([w.I0], w.P, 'd', w.fNEW)   # replaced: the cache has the last reference
        except Exception as e:
            return ('mutator-raised:' + type(e).__name__, repr(e)[:200]), bool(w.fired)
    if not w.fired:
        return None, False
    w.armed = False
    if light:
        return None, True
    bad = [x for x in w.log if x[0] == 'destructor-raised']
    if bad:
        return ('exception-inside-destructor', bad[0]), True
    t = World(flavour, audit=False)
    if trigger:
        TRIGGERS[trigger](t)
    else:
        t.reg.register([t.I0], t.P, 'd', t.fNEW)
    t.apply_mutation_only(action)
    if spec_first and action not in ('rebase-interface',):
        # second pass: the looked-up interface changes *before* anybody looks
        # anything up again (a lookup would start to watch it again and hide
        # that what the destructor cached is not watched)
        for x in (w, t):
            x.I1.__bases__ = (x.X,)
        for name, fn in DESTRUCTOR_ENTRIES.items():
            a, b = norm(fn(w)), norm(fn(t))
            if a != b:
                return ('stale-after-an-immediate-specification-change:' + name, a, b), True
        for e in ENTRIES:
            a, b = norm(w.call(e)), norm(t.call(e))
            if a != b:
                return ('stale-after-an-immediate-specification-change:' + e, a, b), True
        return None, True
    for name, fn in DESTRUCTOR_ENTRIES.items():
        a, b = norm(fn(w)), norm(fn(t))
        if a != b:
            return ('stale-answer-survives:' + name, a, b), True
    for e in ENTRIES:
        a, b = norm(w.call(e)), norm(t.call(e))
        if a != b:
            return ('stale-answer-survives:' + e, a, b), True
    # whatever was looked up from inside the destructor is still watched: a
    # later change of the required specification reaches every cached answer
    if action not in ('rebase-interface',):
        for x in (w, t):
            x.I1.__bases__ = (x.X,)
        for name, fn in DESTRUCTOR_ENTRIES.items():
            a, b = norm(fn(w)), norm(fn(t))
            if a != b:
                return ('stale-after-later-specification-change:' + name, a, b), True
        for e in ENTRIES:
            a, b = norm(w.call(e)), norm(t.call(e))
            if a != b:
                return ('stale-after-later-specification-change:' + e, a, b), True
    if not spec_first:
        return scenario_destructor(case, light, spec_first=True)
    return None, True


def scenario(case, light=False, spec_first=False):
    """Returns (violation or None, fired?)."""
    flavour, entry, site, action, warm = case
    if site.startswith('value-destructor'):
        return scenario_destructor(case, light)
    if spec_first and action == 'rebase-interface':
        return None, True
    lazy = 'twin' if site == 'key-destructor' else site == 'required-iter'
    if lazy and entry not in LAZY_OK:
        return None, False
    if lazy == 'twin' and action in ('raise', 'register-then-raise', 'register-while-generation-fails', 'rebase-while-generation-fails'):
        return None, False          # an exception in a destructor goes nowhere
    if site == 'generation' and flavour != 'verifying':
        return None, False
    # before / after answers from twin worlds
    if not light:
        tb = World(flavour, audit=False)
        before = norm(tb.call(entry, lazy))
        ta = World(flavour, audit=False)
        ta.apply_mutation_only(action)
        after = norm(ta.call(entry, lazy))
    w = World(flavour, site, action, audit=not light)
    if warm:
        w.armed = False
        for e in ENTRIES:
            w.call(e, e in LAZY_OK)
        w.armed = True
        if site == 'key-destructor':
            w.armed = False
            w.call(entry, 'twin-keep')       # the caches know an equal key
            w.armed = True
        if site.startswith('uncached') or site == 'generation':
            # warm caches would skip the uncached path: invalidate through a
            # base registry (verifying) / directly, keeping the containers
            w.armed = False
            w.base._gen += 1 if flavour == 'verifying' else 0
            if flavour != 'verifying':
                w.reg._v_lookup.changed(None)
            w.armed = True
    raised = None
    try:
        got = norm(w.call(entry, lazy))
    except Injected:
        raised = 'Injected'
        got = None
    except Exception as e:
        return ('lookup-raised:' + type(e).__name__, repr(e)[:200]), bool(w.fired)
    if not w.fired:
        return None, False
    if light:
        return None, True
    expect_raise = action in ('raise', 'register-then-raise', 'register-while-generation-fails', 'rebase-while-generation-fails') and site != 'factory-swallow'
    if raised and not expect_raise:
        return ('unexpected-exception', raised), True
    if expect_raise and not raised:
        return ('injected-exception-swallowed', got), True
    if not raised and got != before and got != after:
        return ('not-atomic', got, before, after), True
    # ownership audit: a pinned container written after the callback returned
    # must have had an owner other than the harness at that moment
    for p, snap, rc in w.pinned:
        if type(p) is dict:
            if dict(p) != snap and rc <= 0:
                return ('use-after-free:cache-dict-written-while-unowned',
                        'owners other than the harness at the call-out: %d' % rc,
                        sorted(map(repr, set(p) - set(snap)))), True
        elif site == 'generation' and rc <= 0 and action not in ('nop', 'gc', 'reenter-same', 'reenter-other', 'raise'):
            return ('use-after-free:verify-ro-read-while-unowned',
                    'owners other than the harness at the call-out: %d' % rc), True
    if spec_first:
        # second pass: the looked-up interface changes before anybody looks
        # anything up again
        w.armed = False
        t = World(flavour, audit=False)
        t.apply_mutation_only(action)
        for x in (w, t):
            x.I1.__bases__ = (x.X,)
        for e in ENTRIES:
            lz = e in LAZY_OK and lazy
            a, b = norm(w.call(e, lz)), norm(t.call(e, lz))
            if a != b:
                return ('stale-after-an-immediate-specification-change:' + e, a, b), True
        return None, True
    # no stale survivor: every entry point now gives the after-answer
    w.armed = False
    for e in ENTRIES:
        lz = e in LAZY_OK and lazy
        a = norm(w.call(e, lz))
        t = World(flavour, audit=False)
        t.apply_mutation_only(action)
        b = norm(t.call(e, lz))
        if a != b:
            return ('stale-answer-survives:' + e, a, b), True
    # ... and the registry still hears about the registries it derives from
    # now: a later registration in each of them reaches every entry point
    t = World(flavour, audit=False)
    t.apply_mutation_only(action)
    # (one registry at a time, the one that was not a base at first before the
    # others: a registration in a registry the lookup object does watch would
    # make it start afresh and hide that it does not watch another one)
    for which, nm_ in (('base3', 'b3'), ('base2', 'b2'), ('base', 'b1')):
        for x in (w, t):
            getattr(x, which).register([x.I1], x.P, nm_, x.fNEW)
        for e in ENTRIES:
            lz = e in LAZY_OK and lazy
            a, b = norm(w.call(e, lz)), norm(t.call(e, lz))
            if a != b:
                return ('stale-after-a-later-registration-in-a-base:' + e, which, a, b), True
    # no leak: once the lookup has ended and the caches are cleared, nobody
    # but the harness (and the pinned dict one level up) refers to a container
    # the interrupted frame was holding
    objs = [p for p, _, _ in w.pinned if type(p) is dict]
    if objs:
        objs.append({})                 # control, held exactly like the others
        w.pinned = []
        p = snap = None
        w.reg._v_lookup.changed(None)
        base = _rc(objs, len(objs) - 1)
        i = 0
        while i < len(objs) - 1:
            inside = 0
            for d in objs:
                for v in d.values():
                    if v is objs[i]:
                        inside += 1
            v = d = None
            extra = _rc(objs, i) - base - inside
            if extra > 0:
                return ('leak:cache-dict-still-referenced-after-the-lookup-ended',
                        'references nobody accounts for: %d' % extra), True
            i += 1
    if not light and not spec_first:
        v2, _ = scenario(case, light, spec_first=True)
        if v2:
            return v2, True
    return None, True


def count_live():
    """(live interfaces, all container objects the collector knows) after a
    full collection."""
    gc.collect()
    n = 0
    objs = gc.get_objects()
    for o in objs:
        if type(o) is InterfaceClass:
            n += 1
    return n, len(objs)


def leak_check(case):
    """The scenario repeated: live interfaces must not accumulate."""
    def once():
        try:
            scenario(case, light=True)
        except Injected:
            pass
    for i in range(5):
        once()
    n1, t1 = count_live()
    for i in range(12):
        once()
    n2, t2 = count_live()
    if n2 > n1:
        return ('leak', 'live InterfaceClass objects after gc: %d -> %d over 12 repetitions' % (n1, n2))
    if t2 - t1 >= 12:
        # at least one container (e.g. a cache dict whose reference was not
        # given back on an error path) stays behind per repetition
        return ('leak', 'objects tracked by the collector after gc: %d -> %d over 12 repetitions' % (t1, t2))
    return None


def memcheck_shard(arg):
    """Run the scenarios of one shard, unpinned, under valgrind memcheck (C
    implementation). Returns dict(rc, fired, last, tail); rc 99 = memcheck
    reported an invalid access/free, negative = the interpreter died."""
    import pickle
    import shutil
    import subprocess
    cases, limit = arg
    if not shutil.which('valgrind'):
        return dict(rc=None, fired=0, last=-1, tail='valgrind not installed')
    work = os.environ.get('VERIF_WORK', '/verif/.work')
    os.makedirs(work, exist_ok=True)
    path = os.path.join(work, 'memcheck-%d.pkl' % os.getpid())
    with open(path, 'wb') as f:
        pickle.dump([tuple(c) for c in cases], f)
    env = dict(os.environ, PYTHONMALLOC='malloc', PURE_PYTHON='0', PYTHONHASHSEED='0')
    here = os.path.dirname(os.path.abspath(__file__))
    # corrupted memory can also send the interpreter into an endless loop: the
    # shard gets a generous time limit (a clean shard takes well under a minute)
    p = subprocess.Popen(['valgrind', '-q', '--error-exitcode=99', '--undef-value-errors=no',
                          '--num-callers=12', sys.executable, os.path.join(here, 'c11_memcheck.py'), path],
                         env=env, stdout=subprocess.DEVNULL, stderr=subprocess.PIPE, text=True)
    timed_out = False
    try:
        _, err = p.communicate(timeout=limit)
    except subprocess.TimeoutExpired:
        timed_out = True
        p.kill()
        _, err = p.communicate()

    class r:
        returncode = p.returncode
        stderr = err
    if timed_out:
        # an invalid access reported before the hang is a violation; a bare
        # time-out is only recorded (it could be a slow machine)
        r.returncode = 99 if '== Invalid' in err else None
    try:
        os.unlink(path)
    except OSError:
        pass
    err = r.stderr
    last = -1
    fired = 0
    first_report = err.find('== Invalid')
    if first_report < 0:
        first_report = err.find('==ERROR')
    scan = err if first_report < 0 else err[:first_report]
    for line in scan.splitlines():
        if line.startswith('@@SCENARIO'):
            last = int(line.split()[1])
    for line in err.splitlines():
        if line.startswith('@@DONE'):
            fired = int(line.split()[1])
    tail = ''
    if timed_out and r.returncode is None:
        return dict(rc=None, fired=fired, last=last, tail='memcheck shard did not finish within %d s' % limit)
    if r.returncode != 0:
        k = err.find('==', max(0, first_report - 20)) if first_report >= 0 else 0
        tail = err[k:k + 2500]
    return dict(rc=r.returncode, fired=fired, last=last, tail=tail)


def evaluate(arg):
    cases, with_leak = arg
    viol = []
    n = fired = 0
    for case in cases:
        case = tuple(case)
        try:
            v, f = scenario(case)
        except Injected:
            v, f = ('injected-exception-escaped-harness',), True
        if f:
            n += 1
            fired += 1
            if v is None and with_leak:
                v = leak_check(case)
        if v:
            viol.append(dict(sig='C11:inject:%s:%s' % (v[0], case[2].split(':')[0]),
                             case=dict(kind='inject', case=case, leak=(v[0] == 'leak')),
                             detail=dict(flavour=case[0], entry=case[1], site=case[2],
                                         action=case[3], warm=case[4], violation=v)))
        gc.collect()
    return dict(n=n, viol=viol)


# ---------------------------------------------------------------- (b) schedules

MUTATORS = {
    'register': lambda w: w.reg.register([w.I1], w.P, '', w.fNEW),
    'unregister': lambda w: w.reg.unregister([w.I0], w.P, ''),
    'subscribe': lambda w: w.reg.subscribe([w.I1], w.P, w.fNEW),
    'unsubscribe': lambda w: w.reg.unsubscribe([w.I0], w.P),
    'register-in-base': lambda w: w.base.register([w.I1], w.P, 'b', w.fNEW),
    'rebase-registry': lambda w: setattr(w.reg, '__bases__', (w.base2,)),
    # a registry *above* the one that is looking something up gets a new base
    'rebase-base-registry': lambda w: setattr(w.base, '__bases__', (w.other,)),
    'classImplements': lambda w: classImplements(w.K, w.X),
    'rebase-interface': lambda w: setattr(w.I1, '__bases__', (w.X,)),
    # the *first* registration for a provided interface (PN extends P): besides the
    # registration itself the extendors of P have to change
    'register-new-provided': lambda w: w.reg.register([w.I1], w.PN, '', w.fNEW),
    # removes the last registration for PA: PA leaves the extendors of P
    'unregister-unrelated-extendor': lambda w: w.reg.unregister([w.X], w.PA, ''),
}
SPEC_MUTATORS = ('classImplements', 'rebase-interface')
# thorough tier: two pre-emptions for the mutators that change the registry or
# its chain; one for the others (the full set at bound 2 takes several hours)
DEEP_MUTATORS = ('register', 'unregister', 'subscribe', 'unsubscribe', 'register-in-base',
                 'rebase-registry')
EXT_MUTATORS = ('unregister-unrelated-extendor',)     # run in the world with [P, PA, PB]
OPCODE_LEVEL = ('changed', 'register', 'unregister', 'subscribe', 'unsubscribe', '_setBases',
                '_subscribe', '_uncached_lookup', '_uncached_subscriptions', '_lookup',
                '_subscriptions', '_getcache', 'lookup', 'subscriptions', 'add_extendor',
                'remove_extendor', '_verify', '_setBases', '__setBases')
SCHED_ENTRIES = ['lookup', 'lookup1', 'lookupAll', 'subscriptions', 'queryAdapter', 'adapter_hook']


class SchedWorld(World):
    """World whose uncached hooks run the ownership audit instead of an action
    (the 'action' is whatever the other thread does meanwhile)."""

    def __init__(self, flavour, extendors=False):
        World.__init__(self, flavour, site=None, action=None, audit=True, extendors=extendors)
        self.audits = []
        self.in_flight = {}

    def fire(self, site):
        if not site.startswith('uncached'):
            return
        import threading
        tid = threading.get_ident()
        kind, when = site.split(':')
        lk = self.reg._v_lookup
        if when == 'before':
            pins = inner_dicts(lk)
            pins.append({})          # control
            snaps = []
            i = 0
            while i < len(pins):
                snaps.append(dict(pins[i]))
                i += 1
            self.in_flight[tid] = (pins, snaps)
        else:
            pins, snaps = self.in_flight.pop(tid, ((), ()))
            if pins:
                base = _rc(pins, len(pins) - 1)
                i = 0
                while i < len(pins) - 1:
                    owners = _rc(pins, i) - base
                    self.audits.append((pins[i], dict(pins[i]), owners))
                    i += 1


def follow_up(w, mutator):
    """A later change of the looked-up specification, made after all threads
    have ended: whatever the lookup object cached has to go then."""
    w.I1.__bases__ = (w.I0, w.X) if mutator == 'rebase-interface' else (w.X,)
    w.X2.__bases__ = (w.I0,)


def make_harness(flavour, mutator, entries):
    flavour, _, variant = flavour.partition('+')

    def make():
        w = SchedWorld(flavour, extendors=(mutator in EXT_MUTATORS))
        # the lookup object already watches other specifications when the
        # threads start (its set of watched specifications is then walked by
        # changed() while a lookup adds to it)
        w.reg.lookup([w.X], w.P, '')
        w.reg.subscriptions([w.I0], w.PN)
        if variant == 'stale-ro':
            # a verifying registry that has to recompute its resolution order
            # in its next lookup (a base changed since its last one)
            w.base.register([w.P], w.PN, 'q', 1)      # applies to none of the lookups made here
        if variant == 'watching':
            # ... and the very specifications the threads are going to look
            # up (through keys the threads do not use): an invalidation then
            # stops watching exactly what a concurrent lookup starts to watch
            w.reg.lookup([w.I1], w.PN, 'zz')
            w.reg.lookup([implementedBy(w.K)], w.PN, 'zz')
        bodies = []
        if mutator:
            bodies.append(lambda: MUTATORS[mutator](w))
        for e in entries:
            bodies.append((lambda e=e: norm(w.call(e))))
        return bodies, w
    return make


def make_check(flavour, mutator, entries):
    flavour = flavour.partition('+')[0]
    nm = 1 if mutator else 0

    def answers():
        ext = mutator in EXT_MUTATORS
        tb = World(flavour, audit=False, extendors=ext)
        ta = World(flavour, audit=False, extendors=ext)
        if mutator:
            MUTATORS[mutator](ta)
        later = {}
        for e in ENTRIES + [x for x in entries if x not in ENTRIES]:
            t = World_after(flavour, mutator)
            follow_up(t, mutator)
            later[e] = norm(t.call(e))
        return ([norm(tb.call(e)) for e in entries], [norm(ta.call(e)) for e in entries],
                {e: norm(World_after(flavour, mutator).call(e)) for e in ENTRIES}, later)
    cache = {}

    def check(x, w):
        if 'a' not in cache:
            cache['a'] = answers()
        before, after, final, later = cache['a']
        for i, e in enumerate(x.errors):
            if e is not None:
                return 'error', ('thread-raised', i, type(e).__name__, repr(e)[:200])
        res = x.results[nm:]
        labels = []
        # real-time order: a lookup that starts after the mutator finished must see 'after'
        mut_end = None
        starts = {}
        for k, (tid, what) in enumerate(x.order):
            if tid == 0 and what == 'end' and mutator:
                mut_end = k
            if what == 'start':
                starts[tid] = k
        mut_start = starts.get(0) if mutator else None
        for j, r in enumerate(res):
            tid = nm + j
            ok_before = r == before[j]
            ok_after = r == after[j]
            if not (ok_before or ok_after):
                if mutator in SPEC_MUTATORS:
                    # the mutation changes a specification, not the registry:
                    # the property only promises atomicity with respect to
                    # registry mutations (a lookup reads __sro__ once per
                    # registry of the chain)
                    labels.append('~')
                    continue
                return 'wrong', ('not-atomic', entries[j], r, before[j], after[j])
            if mutator and before[j] != after[j]:
                if mut_end is not None and starts[tid] > mut_end and not ok_after:
                    return 'wrong', ('stale-after-mutator-finished', entries[j], r, after[j])
                ends = [k for k, (t, wh) in enumerate(x.order) if t == tid and wh == 'end']
                if mut_start is not None and ends and ends[0] < mut_start and not ok_before:
                    return 'wrong', ('future-answer-before-mutator-started', entries[j], r)
            labels.append('A' if (ok_after and not ok_before) else 'B' if (ok_before and not ok_after) else '=')
        # ownership audit
        for d, snap, rc in w.audits:
            pass
        # stray writes: a container that was unowned when the uncached call
        # returned but received an entry afterwards
        for d, snap, rc in w.audits:
            if rc <= 0 and dict(d) != snap:
                return 'uaf', ('use-after-free:cache-dict-written-while-unowned',
                               'owners other than the harness when the uncached call returned: %d' % rc)
        for e in ENTRIES:
            a = norm(w.call(e))
            if a != final[e]:
                return 'stale', ('stale-answer-survives:' + e, a, final[e])
        # ... and the lookup object still hears about the specifications it
        # looked up: a later change of one of them reaches every entry point
        follow_up(w, mutator)
        for e in ENTRIES + [x for x in entries if x not in ENTRIES]:
            a = norm(w.call(e))
            if a != later[e]:
                return 'stale', ('stale-answer-survives-a-later-change-of-the-specification:' + e, a, later[e])
        return ''.join(labels), None
    return check


def World_after(flavour, mutator):
    t = World(flavour, audit=False, extendors=(mutator in EXT_MUTATORS))
    if mutator:
        MUTATORS[mutator](t)
    return t


JOURNAL = [None]


def explore_harness(arg):
    flavour, mutator, entries, bound, maxs = arg[:5]
    shard = None
    mode = arg[5] if len(arg) > 5 else None      # None | 'root' | list of prefixes
    collect = arg[6] if len(arg) > 6 else False
    # per-bytecode scheduling points inside the named functions (thorough tier)
    sched.OPCODE_FUNCS.clear()
    sched.OPCODE_FUNCS.update(arg[7] if len(arg) > 7 and arg[7] else ())
    gc.disable()
    import time as _time
    _t0 = _time.time()
    jpath = os.path.join(os.environ.get('VERIF_WORK', '/verif/.work'), 'journal-%d' % os.getpid())
    os.makedirs(os.path.dirname(jpath), exist_ok=True)

    def journal(prefix):
        with open(jpath, 'w') as f:
            f.write(repr((flavour, mutator, entries, list(prefix))))
    st = sched.explore(make_harness(flavour, mutator, entries),
                       WATCH_RO if flavour.endswith('+stale-ro') else WATCH, bound,
                       make_check(flavour, mutator, entries), journal=journal,
                       max_schedules=maxs, shard=shard, collect=collect,
                       stack0=(mode if isinstance(mode, list) else
                               mode[1] if isinstance(mode, tuple) else None),
                       root_only=(mode == 'root' or isinstance(mode, tuple)))
    sched.OPCODE_FUNCS.clear()
    try:
        os.unlink(jpath)
    except OSError:
        pass
    gc.collect()
    st['pid'] = os.getpid()
    st['secs'] = round(_time.time() - _t0, 2)
    return st


def replay(case):
    if case['kind'] == 'inject':
        c = tuple(case['case'])
        v, f = scenario(c)
        if v is None and case.get('leak'):
            v = leak_check(c)
        return dict(violation=v) if v else None
    if case['kind'] == 'schedule':
        flavour, mutator, entries = case['flavour'], case['mutator'], list(case['entries'])
        sched.OPCODE_FUNCS.clear()
        sched.OPCODE_FUNCS.update(case.get('opcode') or ())
        gc.disable()
        out, v = sched.replay_schedule(make_harness(flavour, mutator, entries),
                                          WATCH_RO if flavour.endswith('+stale-ro') else WATCH,
                                       case['schedule'], make_check(flavour, mutator, entries))
        # determinism: the same schedule must give the same observation twice
        out2, v2 = sched.replay_schedule(make_harness(flavour, mutator, entries),
                                          WATCH_RO if flavour.endswith('+stale-ro') else WATCH,
                                         case['schedule'], make_check(flavour, mutator, entries))
        if (out, repr(v)) != (out2, repr(v2)):
            return dict(error='replay is not deterministic', first=repr(v), second=repr(v2))
        return dict(violation=v) if v else None
    if case['kind'] == 'memcheck':
        r = memcheck_shard(([tuple(c) for c in case['cases']], 1800))
        if r['rc'] not in (0, None):
            return dict(violation='memcheck reports an invalid access', rc=r['rc'], report=r['tail'])
        return None
    if case['kind'] == 'crash':
        # re-run the journalled schedule; a crash kills this process
        return replay(dict(case, kind='schedule'))


def free_run(arg):
    """Supplementary, not deciding: the harness bodies without a scheduler."""
    import threading
    import time
    flavour, seconds = arg
    w = World(flavour, audit=False)
    stop = []

    def looker():
        while not stop:
            for e in SCHED_ENTRIES:
                w.call(e)

    def mut():
        i = 0
        while not stop:
            i += 1
            w.reg.register([w.I1], w.P, 'x', i)
            w.reg.unregister([w.I1], w.P, 'x')
            w.reg.subscribe([w.I1], w.P, i)
            w.reg.unsubscribe([w.I1], w.P, i)
    sys.setswitchinterval(1e-5)
    errs = []

    def guard(f):
        def g():
            try:
                f()
            except BaseException as e:
                errs.append(repr(e))
                stop.append(1)
        return g
    ts = [threading.Thread(target=guard(looker)) for _ in range(3)] + \
        [threading.Thread(target=guard(mut))]
    for t in ts:
        t.start()
    time.sleep(seconds)
    stop.append(1)
    for t in ts:
        t.join()
    sys.setswitchinterval(0.005)
    return errs


def run(ctx):
    from ..runner import finish, chunks
    from ..pool import Crash, NPROC
    quick = ctx.tier == 'quick'
    os.environ['VERIF_WORK'] = os.path.join(os.path.dirname(os.path.dirname(os.path.dirname(os.path.abspath(__file__)))), '.work')
    # (a) injection
    cases = []
    for flavour in ('adapter', 'verifying'):
        for entry in ENTRIES:
            for site in SITES:
                for action in ACTIONS:
                    for warm in (False, True):
                        cases.append((flavour, entry, site, action, warm))
    ninj = 0
    for impl in ('c', 'py'):
        parts = chunks(cases, 40)
        res = ctx.pool(impl, capture_stderr=True).map('c11', 'evaluate',
                                                      [(p, True) for p in parts])
        for part, r in zip(parts, res):
            if isinstance(r, Crash):
                # attribute the crash to a scenario
                for c in part:
                    r1 = ctx.pool(impl, capture_stderr=True).call('c11', 'evaluate', ([c], False))
                    if isinstance(r1, Crash):
                        ctx.violation(dict(sig='C11:inject:interpreter-crash:%s' % c[2].split(':')[0],
                                           impl=impl, crash=True,
                                           case=dict(kind='inject', case=c),
                                           detail=dict(case=c, returncode=r1.returncode,
                                                       stderr=r1.stderr_tail[-1500:])))
                        break
                continue
            ninj += r['n']
            for v in r['viol']:
                v['impl'] = impl
            ctx.violations(r['viol'])
        ctx.log(impl, 'injection scenarios that reached their site:', ninj)
        ctx.info['%s/injection_scenarios' % impl] = ninj
    ctx.add(fault_scenarios=ninj)
    # (a2) the same scenarios, unpinned, under valgrind memcheck (C implementation):
    # an independent oracle for "memory is never corrupted"
    MUT_ACTIONS = ('register-better', 'unregister-winner', 'subscribe', 'unsubscribe',
                   'register-in-base', 'rebase-registry', 'rebase-interface', 'changed',
                   'lookup.changed', 'register-then-raise', 'changed-then-gc', 'reenter-other',
                   'reenter-same', 'gc', 'reenter-then-register-in-base', 'register-while-generation-fails', 'rebase-while-generation-fails')
    if quick:
        mc = [c for c in cases if c[3] in MUT_ACTIONS and
              (c[2].startswith('uncached') or c[2] in ('generation', 'required-iter', 'key-destructor') or c[2].startswith('value-destructor'))]
    else:
        mc = list(cases)
    # keep only scenarios that can reach their site (cheap pre-filter by pairing)
    def pairs(c):
        e, site = c[1], c[2]
        if site.startswith('uncached_lookupAll'):
            return e in ('lookupAll', 'names')
        if site.startswith('uncached_subscriptions'):
            return e in ('subscriptions', 'subscribers')
        if site.startswith('uncached_lookup'):
            return e not in ('lookupAll', 'names', 'subscriptions', 'subscribers')
        if site == 'generation':
            return c[0] == 'verifying'
        if site in ('required-iter', 'key-destructor'):
            return e in LAZY_OK
        if site.startswith('value-destructor'):
            return e in DESTRUCTOR_ENTRIES
        return True
    mc = [c for c in mc if pairs(c)]
    shards = [mc[i::NPROC] for i in range(NPROC)]
    shards = [sh for sh in shards if sh]
    res = ctx.pool('c', capture_stderr=True).map('c11', 'memcheck_shard',
                                                 [(sh, 300 if quick else 1800) for sh in shards])
    nmem = 0
    for sh, r in zip(shards, res):
        if isinstance(r, Crash) or r['rc'] is None:
            ctx.cap('memcheck shard skipped: %s' % (getattr(r, 'stderr_tail', None) or r.get('tail')))
            continue
        nmem += r['fired']
        if r['rc'] != 0:
            upto = sh[:r['last'] + 1] if r['last'] >= 0 else sh
            ctx.violation(dict(sig='C11:memcheck:invalid-access', impl='c',
                               case=dict(kind='memcheck', cases=upto),
                               detail=dict(what='valgrind memcheck (PYTHONMALLOC=malloc) reports an invalid read/write/free while the unpinned injection scenarios run',
                                           first_report_during_or_after_scenario=(upto[-1] if upto else None),
                                           valgrind_exit=r['rc'], report=r['tail'][:1800])))
    ctx.info['c/memcheck_scenarios'] = nmem
    ctx.add(memcheck_scenarios=nmem)
    ctx.log('memcheck: scenarios that reached their site under valgrind:', nmem)
    # (b) schedules
    collect = bool(ctx.opts.get('collect'))

    def plans_for(impl):
        plans = []          # (flavour, mutator, entries, bound, split?)

        def add(flavour, mut, entries, bound, split=False, opcode=None):
            plans.append((flavour, mut, entries, bound, split, opcode))
        for flavour in ('adapter', 'verifying'):
            for mut in MUTATORS:
                for e in SCHED_ENTRIES + ['lookup-e', 'lookup-b']:
                    if e == 'lookup-b' and mut != 'register-in-base':
                        continue      # only a base registration changes that answer
                    if (mut == 'unregister-unrelated-extendor') != (e in ('lookup-e', 'subscriptions', 'lookupAll')) \
                            and (mut == 'unregister-unrelated-extendor' or e == 'lookup-e'):
                        continue      # the extendors walk: only these pairings add anything
                    if quick or mut not in DEEP_MUTATORS:
                        add(flavour, mut, [e], 1)
                    else:
                        add(flavour, mut, [e], 2, True)
            # the lookup object watches the looked-up specifications already
            for mut in ('register', 'unregister', 'subscribe', 'unsubscribe', 'register-new-provided'):
                for e in ('lookup', 'subscriptions', 'queryAdapter'):
                    if quick or not (mut in ('register', 'unregister') and e in ('lookup', 'subscriptions')):
                        add(flavour + '+watching', mut, [e], 1)
                    else:
                        add(flavour + '+watching', mut, [e], 2, True)
            add(flavour + '+watching', None, ['lookup', 'lookupAll'], 1 if quick else 2, not quick)
            # the lookup objects of two registries start to watch one
            # specification that nobody depended on before
            add(flavour, None, ['lookup-x2', 'base-lookup-x2'], 1 if quick else 2, not quick)
            if flavour == 'verifying':
                # the lookup recomputes the resolution order of its registry
                # (scheduling points inside ro.py as well) while a registry
                # above is re-based
                for e in ('lookup', 'subscriptions'):
                    deep = not quick and e == 'lookup'
                    add('verifying+stale-ro', 'rebase-base-registry', [e], 2 if deep else 1, deep)
                    add('verifying+stale-ro', 'rebase-registry', [e], 1, False)
            if quick:
                if flavour == 'adapter':
                    add(flavour, 'register', ['lookup'], 2, True)
                add(flavour, None, ['lookup', 'lookup'], 1)
                add(flavour, None, ['lookupAll', 'subscriptions'], 1)
                add(flavour, 'register', ['lookup', 'lookup'], 1, True)
            else:
                add(flavour, 'register', ['lookup'], 3, True)
                add(flavour, 'unregister', ['lookupAll'], 3, True)
                add(flavour, None, ['lookup', 'lookup'], 2, True)
                add(flavour, None, ['lookupAll', 'subscriptions'], 2, True)
                add(flavour, 'register', ['lookup', 'lookup'], 2, True)
                add(flavour, 'unsubscribe', ['subscriptions', 'lookup1'], 2, True)
                add(flavour, 'rebase-interface', ['lookup', 'queryAdapter'], 2, True)
                # the same core harnesses with a scheduling point before every
                # *bytecode* of the mutators and of the Python half of a lookup
                for mut in ('register', 'unregister', 'subscribe', 'rebase-registry', 'rebase-interface'):
                    for e in ('lookup', 'subscriptions'):
                        add(flavour, mut, [e], 1, True, OPCODE_LEVEL)
        return plans
    nsched = 0
    outcomes = {}
    for impl in ('c', 'py'):
        plans = plans_for(impl)
        pool = ctx.pool(impl, capture_stderr=True)
        # phase 1: unsplit harnesses run whole; split ones run their default
        # schedule and hand back the first-level alternatives
        tasks = [(p[0], p[1], p[2], p[3], None, 'root' if p[4] else None, collect, p[5]) for p in plans]
        res = pool.map('c11', 'explore_harness', tasks)
        def chunked(p, ch, size, mode):
            out = []
            for k in range(0, len(ch), size):
                part = ch[k:k + size]
                out.append((p[0], p[1], p[2], p[3], None,
                            ('expand', part) if mode == 'expand' else part, collect,
                            p[7] if len(p) > 7 else p[5]))
            return out
        tasks1 = []
        for p, r in zip(plans, res):
            if p[4] and not isinstance(r, Crash):
                tasks1 += chunked(p, r.get('children', []), 6, 'expand')
        res1 = pool.map('c11', 'explore_harness', tasks1)
        tasks2 = []
        for t, r in zip(tasks1, res1):
            if not isinstance(r, Crash):
                tasks2 += chunked(t, r.get('children', []), 60, 'full')
        tasks += tasks1
        res += res1
        res2 = pool.map('c11', 'explore_harness', tasks2)
        agg = {}
        for plan, r in list(zip(tasks, res)) + list(zip(tasks2, res2)):
            label = '%s/%s||%s/bound%d%s' % (plan[0], plan[1], '+'.join(plan[2]), plan[3],
                                             '/per-bytecode' if plan[7] else '')
            if isinstance(r, Crash):
                ctx.violation(dict(sig='C11:schedule:interpreter-crash', impl=impl, crash=True,
                                   case=dict(kind='crash', flavour=plan[0], mutator=plan[1],
                                             entries=plan[2], schedule=[]),
                                   detail=dict(harness=label, returncode=r.returncode,
                                               stderr=r.stderr_tail[-1500:])))
                continue
            nsched += r['schedules']
            ctx.add(schedules_in_which_a_thread_waited_for_a_library_lock=r.get('lock_waits', 0))
            a = agg.setdefault(label, dict(schedules=0, max_points=0, outcomes={}, tasks=0))
            a['schedules'] += r['schedules']
            a['tasks'] += 1
            a['secs'] = round(a.get('secs', 0) + r.get('secs', 0), 1)
            a['max_task_secs'] = max(a.get('max_task_secs', 0), r.get('secs', 0))
            a['max_points'] = max(a['max_points'], r['maxpoints'])
            for o, c in r['outcomes'].items():
                outcomes[o] = outcomes.get(o, 0) + c
                a['outcomes'][o] = a['outcomes'].get(o, 0) + c
            if r.get('capped'):
                ctx.cap('%s %s: schedule cap reached' % (impl, label))
            vs = r['violations'] if collect else ([r['violation']] if r['violation'] else [])
            for v in vs:
                ctx.violation(dict(sig='C11:schedule:%s' % v['violation'][0], impl=impl,
                                   case=dict(kind='schedule', flavour=plan[0], mutator=plan[1],
                                             entries=plan[2], schedule=v['schedule'], opcode=plan[7]),
                                   detail=dict(harness=label, schedule_switches=[i for i, c in enumerate(v['schedule']) if c],
                                               violation=v['violation'])))
        for label, a in agg.items():
            ctx.info['%s/%s' % (impl, label)] = a
        ctx.log(impl, 'schedules', nsched, 'outcomes', outcomes)
    if not quick:
        for impl in ('c', 'py'):
            for flavour in ('adapter', 'verifying'):
                r = ctx.pool(impl, capture_stderr=True).call('c11', 'free_run', (flavour, 10))
                if isinstance(r, Crash):
                    ctx.violation(dict(sig='C11:free-run:interpreter-crash', impl=impl, crash=True,
                                       case=dict(kind='inject', case=(flavour, 'lookup', 'uncached_lookup:after', 'changed', False)),
                                       detail=dict(free_run=flavour, returncode=r.returncode,
                                                   stderr=r.stderr_tail[-1500:])))
                elif r:
                    ctx.violation(dict(sig='C11:free-run:thread-raised', impl=impl,
                                       case=dict(kind='inject', case=(flavour, 'lookup', 'uncached_lookup:after', 'changed', False)),
                                       detail=dict(free_run=flavour, errors=r[:3])))
                ctx.info['%s/free-run/%s' % (impl, flavour)] = 'survived 10 s'
    ctx.count['states'] = ninj + nsched
    ctx.count['transitions'] = ninj + nsched
    ctx.count['schedules'] = nsched
    ctx.count['traces_validated_against_impl'] = ninj + nsched
    ctx.count['distinct_nontrivial'] = len(outcomes) + 1
    ctx.info['schedule_outcomes'] = outcomes
    ctx.info['library_locks_made_scheduler_aware'] = ADOPTED_LOCKS
    ctx.sample(dict(injection=dict(flavour='verifying', entry='lookup', site='generation', action='register-better', warm=True)))
    ctx.sample(dict(schedule_harness='adapter/register||lookup', meaning='outcome letters: A = lookup saw the after-answer, B = before-answer, = both equal'))
    ctx.assumptions += ['scheduling points are call/line/return trace events in adapter.py, interface.py, declarations.py; C code between two events is atomic (GIL); memory ordering is not modelled',
                        'module-level locks of those three modules (and any lock they create through their threading global) are replaced by scheduler-aware locks: a thread that waits for one is not enabled until its owner releases it; a schedule in which nobody is enabled is reported as a deadlock, an execution that does not end within 120 s as a hang',
                        'memory safety is decided twice: through the ownership audit (refcount of the cache container at the call-out + whether it was written afterwards), and by running the enumerated injection scenarios unpinned under valgrind memcheck with PYTHONMALLOC=malloc (C implementation); the thread schedules are only covered by the audit',
                        'callbacks the property does not name (__hash__/__bool__ of keys) are outside the alphabet']
    return finish(
        ctx, 'model_checking',
        'injection: every (registry flavour, entry point, call-out site, action, cache warm/cold) combination that reaches its site is executed; each scenario is followed by later registrations in every base (one at a time) and, in a second pass, by an immediate change of the looked-up interface; schedules: every harness (mutator || lookup for 11 mutators x 6 cached entry points, lookup-only pairs, two lookups + mutator, lookup objects that already watch the looked-up specifications, two registries on one fresh specification, verifying lookups that recompute their resolution order) is explored over all thread schedules up to the preemption bound under a cooperative scheduler that also owns the locks of the library; oracles: no exception/crash/deadlock/hang, answer = before- or after-answer respecting real-time order, no stale answer in any entry point afterwards nor after a later change of the looked-up interface, ownership audit of the cache containers, no accumulation of live objects',
        'complete product for injection; stateless DFS over schedules with a preemption bound (CHESS-style); states = executions')
