"""C19 — super() proxies see only the remainder of the MRO.

E1: class shapes (chain, diamond, diamond with an undeclared mixin); every
pair (quick) / triple (thorough) of declaration operations before the first
super query and every operation after it; every (C, ob) along every MRO.
Oracle: union of implemented(c) for c after C in type(ob).__mro__ (model of
C01), never ob's direct interfaces; registry adaptation selects the first
interface of that specification's resolution order and passes ob itself.
"""
import gc
import itertools

from zope.interface import (Interface, classImplements, classImplementsOnly,
                            classImplementsFirst, directlyProvides, providedBy,
                            implementedBy)
from zope.interface.interface import InterfaceClass
from zope.interface.adapter import AdapterRegistry, VerifyingAdapterRegistry

from zope.interface import declarations as _decl, implementer
from .common import wmod, newworld

MySuper = type('MySuper', (super,), {})     # a subclass of super is a super proxy too
BUILTIN = complex       # declarations for it live in BuiltinImplementationSpecifications


def mk(n, *b):
    return InterfaceClass(n, b or (Interface,), {'__module__': wmod()})


SHAPES = {
    'chain': [('A', ()), ('B', ('A',)), ('C', ('B',))],
    'diamond': [('A', ()), ('B', ('A',)), ('C', ('A',)), ('D', ('B', 'C'))],
    'mixin': [('A', ()), ('M', ()), ('B', ('A', 'M')), ('C', ('B',))],
    # two leaf classes (B and D) reach super(B, .) with different MRO tails
    'shared-next': [('A', ()), ('X', ()), ('B', ('A',)), ('D', ('B', 'X'))],
    # a builtin type (cannot take attributes) in the tail of the MRO
    'builtin-tail': [('A', ()), ('N', 'builtin'), ('B', ('A', 'N')), ('C', ('B',))],
    'diamond-mixin': [('A', ()), ('M', ()), ('B', ('A',)), ('C', ('A', 'M')), ('D', ('B', 'C'))],
}
IF = ['I0', 'I1', 'I2']


def ext(i, j):
    return i == j or (i == 'I1' and j == 'I0')


def closure(s):
    return {j for i in s for j in IF if ext(i, j)}


def build(shape):
    newworld()
    W = {'I0': mk('I0')}
    W['I1'] = mk('I1', W['I0'])
    W['I2'] = mk('I2')
    W['P'] = mk('P')
    for n, bs in SHAPES[shape]:
        if bs == 'builtin':
            W[n] = BUILTIN
            _decl.BuiltinImplementationSpecifications.pop(BUILTIN, None)
            continue
        # instances are callable, so that a factory-style declaration can be
        # made on the instance itself (implementer(I)(ob))
        W[n] = type(n, tuple(W[b] for b in bs) or (object,), {'__call__': lambda self: None})
    return W


def ops(shape):
    out = [('nop',)]
    for n, _ in SHAPES[shape]:
        for i in IF:
            out += [('ci', n, i), ('cio', n, i)]
        out.append(('cio', n))
    return out


class Model:
    def __init__(s, shape):
        s.shape = {n: (() if bs == 'builtin' else bs) for n, bs in SHAPES[shape]}
        s.decl = {n: [] for n in s.shape}
        s.inherit = {n: True for n in s.shape}

    def impl(s, k):
        r = closure(s.decl[k])
        if s.inherit[k]:
            for b in s.shape[k]:
                r |= s.impl(b)
        return r


def apply(W, M, op):
    if op[0] == 'ci':
        classImplements(W[op[1]], W[op[2]])
        if op[2] not in M.impl(op[1]):
            M.decl[op[1]].append(op[2])
    elif op[0] == 'cio':
        classImplementsOnly(W[op[1]], *[W[x] for x in op[2:]])
        M.decl[op[1]] = list(op[2:])
        M.inherit[op[1]] = False


def check(W, M, shape, flavour, variant=0):
    leafs = [SHAPES[shape][-1][0], SHAPES[shape][-2][0]]
    if variant:
        # the less derived class first, and instances nothing was declared on:
        # the most derived class then meets its first query (of any kind)
        # through a super proxy, after its base answered the same question
        leafs.reverse()
    cls = AdapterRegistry if flavour == 'adapter' else VerifyingAdapterRegistry
    reg = cls()
    for i in IF:
        reg.register([W[i]], W['P'], '', (lambda tag: (lambda o: (tag, o)))(i))
        reg.register([W[i], W[i]], W['P'], '', (lambda tag: (lambda o, o2: (tag, o, o2)))(i))
    for leaf in leafs:
        ob = W[leaf]()
        if not variant:
            directlyProvides(ob, W['I2'])    # direct interfaces must never show through super
            implementer(W['I2'])(ob)         # nor a declaration made on the instance as a factory
        names = {W[n]: n for n, _ in SHAPES[shape]}
        mro = [names[c] for c in W[leaf].__mro__ if c is not object]
        order = list(enumerate(mro))
        if variant:
            order = order[1:] + order[:1]      # the proxy for the class itself comes last
        for idx, cname in order:
          for sup in (super, MySuper):
              s = sup(W[cname], ob)
              rest = mro[idx + 1:]
              exp = set()
              for c in rest:
                  exp |= M.impl(c)
              got = {x.__name__ for x in providedBy(s).flattened()} - {'Interface'}
              got2 = {x.__name__ for x in implementedBy(s).flattened()} - {'Interface'}
              if got != exp:
                  return ('providedBy(super)', leaf, cname, sorted(got), sorted(exp))
              if got2 != exp:
                  return ('implementedBy(super)', leaf, cname, sorted(got2), sorted(exp))
              for i in IF:
                  if W[i].providedBy(s) != (i in exp):
                      return ('I.providedBy(super)', leaf, cname, i)
              for entry in ('queryAdapter', 'adapter_hook', 'queryMultiAdapter', 'I(super)'):
                  if entry == 'queryAdapter':
                      r = reg.queryAdapter(s, W['P'])
                  elif entry == 'adapter_hook':
                      r = reg.adapter_hook(W['P'], s)
                  elif entry == 'queryMultiAdapter':
                      r = reg.queryMultiAdapter((s,), W['P'])
                  else:
                      from zope.interface.interface import adapter_hooks
                      saved = list(adapter_hooks)
                      adapter_hooks[:] = [reg.adapter_hook]
                      try:
                          r = W['P'](s, None)
                      finally:
                          adapter_hooks[:] = saved
                  if exp:
                      if r is None or r[1] is not ob:
                          return ('adapter-gets-underlying-object:' + entry, leaf, cname, repr(r))
                      first = [x.__name__ for x in providedBy(s).__sro__ if x.__name__ in IF][0]
                      if r[0] != first or r[0] not in exp:
                          return ('adapter-selected:' + entry, leaf, cname, r[0], first)
                  elif r is not None:
                      return ('adapter-found-although-nothing-implemented:' + entry, leaf, cname)
              r2 = reg.queryMultiAdapter((s, s), W['P'])
              if exp and (r2 is None or r2[1] is not ob or r2[2] is not ob):
                  return ('queryMultiAdapter-two-supers', leaf, cname, repr(r2))
    return None


def eval_case(case):
    try:
        return _eval_case(case)
    finally:
        _decl.BuiltinImplementationSpecifications.pop(BUILTIN, None)


def _eval_case(case):
    shape, flavour, pre, post = case[:4]
    variant = case[4] if len(case) > 4 else 0
    W = build(shape)
    M = Model(shape)
    for op in pre:
        apply(W, M, op)
    r = check(W, M, shape, flavour, variant)          # first super query (fills the caches)
    if r:
        return ('before-later-changes',) + r
    for op in post:
        apply(W, M, op)
        r = check(W, M, shape, flavour, variant)
        if r:
            return ('after-later-change',) + r
    return None


def evaluate(arg):
    shape, flavour, pres, nops = arg[:4]
    variant = arg[4] if len(arg) > 4 else 0
    O = ops(shape)
    viol = []
    n = 0
    for pre in pres:
        for post in (O if not variant else [('nop',)]):
            n += 1
            v = eval_case((shape, flavour, pre, (post,), variant))
            if v:
                viol.append(dict(sig='C19:%s:%s' % (v[0], v[1]),
                                 case=dict(case=(shape, flavour, pre, (post,), variant)),
                                 detail=dict(shape=shape, flavour=flavour, before_first_query=pre,
                                             after=post, violation=v, variant=variant)))
            if n % 300 == 0:
                gc.collect()
    gc.collect()
    return dict(n=n, viol=viol)


def _t(x):
    return tuple(_t(y) for y in x) if isinstance(x, (list, tuple)) else x


def replay(case):
    v = eval_case(_t(case['case']))
    return dict(violation=v) if v else None


def run(ctx):
    from ..runner import finish, chunks
    quick = ctx.tier == 'quick'
    depth = int(ctx.opts.get('depth', 2 if quick else 3))
    total = 0
    for impl in ('c', 'py'):
        for shape in SHAPES:
            if quick and shape in ('diamond-mixin', 'mixin'):
                continue
            O = ops(shape)
            pres = list(itertools.product(O, repeat=depth))
            if not quick:
                # thorough: all pairs, and triples whose operations touch at most two classes
                pres = [p for p in pres if len({o[1] for o in p if o[0] != 'nop'}) <= 2]
            for flavour in ('adapter', 'verifying'):
                if flavour == 'verifying' and (quick or impl == 'py'):
                    continue
                res = ctx.map(impl, 'evaluate',
                              [(shape, flavour, c, len(O)) for c in chunks(pres, max(4, len(pres) // 64))])
                for r in res:
                    ctx.add(evaluations=r['n'])
                    for v in r['viol']:
                        v['impl'] = impl
                    ctx.violations(r['viol'])
                # the first queries in the other order, on instances without declarations
                res = ctx.map(impl, 'evaluate',
                              [(shape, flavour, c, len(O), 1) for c in chunks(pres, max(4, len(pres) // 64))])
                for r in res:
                    ctx.add(evaluations=r['n'])
                    for v in r['viol']:
                        v['impl'] = impl
                    ctx.violations(r['viol'])
                ctx.info['%s/%s/%s' % (impl, shape, flavour)] = dict(histories=len(pres) * (len(O) + 1))
                ctx.log(impl, shape, flavour, ctx.count['evaluations'])
    ctx.count['states'] = ctx.count['evaluations']
    ctx.count['transitions'] = ctx.count['evaluations']
    ctx.count['traces_validated_against_impl'] = ctx.count['evaluations']
    ctx.sample(dict(shape='diamond', before_first_super_query=[('ci', 'A', 'I0'), ('cio', 'C', 'I2')], after=('ci', 'B', 'I1')))
    return finish(
        ctx, 'model_checking',
        'for every class shape, every sequence of %d declaration operations before the first super query and every single operation after it, super(C, ob) for every C along the MRO of the two most derived classes is queried through providedBy, implementedBy, I.providedBy, queryAdapter, adapter_hook, queryMultiAdapter and I(super) on real objects and compared with the model (remainder of the MRO only, never the direct interfaces, factory receives the underlying object)' % depth,
        'complete enumeration of operation sequences; every history is checked before and after the later change')
