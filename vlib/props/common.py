"""Helpers shared by the property modules."""
import itertools

_world = itertools.count()
MOD = ['w0']


def newworld():
    """Every world gets its own module name for the interfaces it creates.

    Interfaces compare and hash by (name, module); the root ``Interface`` keeps
    its dependents in a WeakKeyDictionary, so an equal-named interface of a
    dead, not yet collected world would share a slot with the live one and
    take it away when it is finally collected (observed: KeyError in
    Specification.unsubscribe after an explicit gc step)."""
    MOD[0] = 'w%d' % next(_world)
    return MOD[0]


def wmod():
    return MOD[0]
