"""C08 — all lookup entry points agree with lookup() and subscriptions().

E2: every registry of size <= 2 over a key universe x every object (plain,
subclass instance, directly providing, super proxy, unrelated) x every
ordered pair (warm-up entry point, measured entry point) including cold.
Oracle: the definitional equalities of the property with a cold lookup() /
subscriptions() as the reference.
"""
import gc
import itertools

from zope.interface import Interface, classImplements, directlyProvides, providedBy
from zope.interface.interface import InterfaceClass
from zope.interface.adapter import AdapterRegistry, VerifyingAdapterRegistry
from .common import wmod, newworld

FLAVOURS = {'adapter': AdapterRegistry, 'verifying': VerifyingAdapterRegistry}


def mk(n, *b):
    return InterfaceClass(n, b or (Interface,), {'__module__': wmod()})


class Fac:
    def __init__(s, tag, none=False):
        s.tag = tag
        s.none = none

    def __call__(s, *obs):
        return None if s.none else (s.tag, obs)

    def __repr__(s):
        return 'Fac(%s)' % s.tag


class FalsyFac(Fac):
    """A registered factory that is false in a boolean context: only None
    means "nothing registered"."""

    def __bool__(s):
        return False


class H:
    def __init__(self):
        newworld()
        self.R0 = R0 = mk('R0')
        self.R1 = R1 = mk('R1', R0)
        self.P0 = P0 = mk('P0')
        self.P1 = P1 = mk('P1', P0)
        A = type('A', (), {})
        classImplements(A, R0)
        B = type('B', (A,), {})
        classImplements(B, R1)
        ob_b = B()
        ob_dp = A()
        directlyProvides(ob_dp, R1)
        MySuper = type('MySuper', (super,), {})
        self.OBJ = {'plain': A(), 'b': ob_b, 'dp': ob_dp, 'super': super(B, ob_b),
                    'super-subclass': MySuper(B, ob_b), 'none': object()}
        from zope.interface import implementedBy
        self.KEYS = [((R0,), P0, ''), ((R1,), P0, ''), ((R0,), P1, ''), ((R0,), P0, 'n'),
                     ((R1,), P1, 'n'), ((Interface,), P0, ''), ((None,), P1, ''),
                     # registered for a class (its specification), not an interface
                     ((implementedBy(A),), P0, 'n')]
        self.KEYS2 = [((R0, R0), P0, ''), ((R1, R0), P0, ''), ((R0, R1), P1, 'n')]
        self.VALS = [Fac('f'), FalsyFac('g'), Fac('nonefac', none=True)]
        self.P = {'P0': P0, 'P1': P1}


SENT = object()
EPS = ['lookup', 'lookup_kw', 'lookup1', 'lookupAll', 'names', 'queryAdapter',
       'adapter_hook', 'queryMultiAdapter', 'subscriptions', 'subscribers']


def real_of(ob):
    return ob.__self__ if isinstance(ob, super) else ob


class EntryRaised(Exception):
    """An entry point raised where the unchanged tree never does (the C
    accelerator has no Python frames, so the runner cannot tell by itself
    that the exception came out of the library)."""


def entry(reg, ep, ob, prov, name):
    try:
        return _entry(reg, ep, ob, prov, name)
    except (ValueError, EntryRaised):
        raise
    except Exception as e:
        raise EntryRaised('%s raised %s: %s' % (ep, type(e).__name__, e))


def _entry(reg, ep, ob, prov, name):
    spec = providedBy(ob)
    if ep == 'lookup':
        return reg.lookup((spec,), prov, name, SENT)
    if ep == 'lookup_kw':
        return reg.lookup(required=[spec], provided=prov, name=name, default=SENT)
    if ep == 'lookup1':
        return reg.lookup1(spec, prov, name, SENT)
    if ep == 'lookupAll':
        return dict(reg.lookupAll((spec,), prov)).get(name, SENT)
    if ep == 'names':
        return name in reg.names((spec,), prov)
    if ep == 'queryAdapter':
        return reg.queryAdapter(ob, prov, name, SENT)
    if ep == 'adapter_hook':
        return reg.adapter_hook(prov, ob, name, SENT)
    if ep == 'queryMultiAdapter':
        return reg.queryMultiAdapter((ob,), prov, name, SENT)
    if ep == 'subscriptions':
        return list(reg.subscriptions((spec,), prov))
    if ep == 'subscribers':
        return reg.subscribers((ob,), prov)


def expected(ref, subs, ep, real, ob=None):
    if ep in ('lookup', 'lookup_kw', 'lookup1', 'lookupAll'):
        return ref
    if ep == 'names':
        return ref is not SENT
    if ep == 'subscriptions':
        return subs
    if ep == 'subscribers':
        out = []
        for s in subs:
            r = s(ob)            # subscribers() passes the objects as given
            if r is not None:
                out.append(r)
        return out
    if ref is SENT:
        return SENT
    r = ref(real)
    return SENT if r is None else r


def same(got, exp, real, ob=None):
    if exp is SENT or isinstance(exp, (Fac, bool)):
        return got is exp
    if isinstance(exp, list):
        if not isinstance(got, list) or len(got) != len(exp):
            return False
        return all((g is e) if isinstance(e, Fac) else
                   (g[0] == e[0] and len(g[1]) == 1 and g[1][0] is ob)
                   for g, e in zip(got, exp))
    return got == exp and isinstance(got, tuple) and got[1][0] is real


def eval_registry(h, flavour, combo, vals, stats, places=None):
    cls = FLAVOURS[flavour]
    places = places or (0,) * len(combo)

    def fresh():
        # the registry that is queried, over one base registry; each entry
        # lives in the registry itself (0) or in the base (1)
        base = cls()
        r = cls((base,))
        for ci, vi, pl in zip(combo, vals, places):
            k = h.KEYS[ci]
            tgt = base if pl else r
            tgt.register(list(k[0]), k[1], k[2], h.VALS[vi])
            if k[2] == '':
                tgt.subscribe(list(k[0]), k[1], h.VALS[vi])
        return r
    for obname, ob in h.OBJ.items():
        real = real_of(ob)
        for pn, prov in h.P.items():
            for name in ('', 'n'):
                ref = fresh().lookup((providedBy(ob),), prov, name, SENT)
                subs = list(fresh().subscriptions((providedBy(ob),), prov))
                for warm in [None] + EPS:
                    reg = fresh()
                    if warm:
                        entry(reg, warm, ob, prov, name)
                    for ep in EPS:
                        stats[0] += 1
                        got = entry(reg, ep, ob, prov, name)
                        exp = expected(ref, subs, ep, real, ob)
                        if not same(got, exp, real, ob):
                            return ('entry-point-disagrees:' + ep, obname, pn, name,
                                    'warmed by %s' % warm, repr(got)[:200],
                                    'default' if exp is SENT else repr(exp)[:200])
                # defaults are returned by identity whether or not the miss was
                # cached, under another default or none
                if ref is SENT:
                    for first in EPS[:7]:
                        reg = fresh()
                        entry(reg, first, ob, prov, name)          # a miss under the default SENT
                        spec = providedBy(ob)
                        d2 = object()
                        got = (reg.lookup((spec,), prov, name, d2), reg.lookup1(spec, prov, name, d2),
                               reg.queryAdapter(ob, prov, name, d2), reg.adapter_hook(prov, ob, name, d2),
                               reg.queryMultiAdapter((ob,), prov, name, d2))
                        stats[0] += 5
                        if any(g is not d2 for g in got):
                            return ('default-not-returned-by-identity-after-a-cached-miss', obname, pn,
                                    name, 'first call: ' + first, [g is d2 for g in got])
                        if reg.lookup((spec,), prov, name) is not None or \
                                reg.lookup1(spec, prov, name) is not None or \
                                reg.queryAdapter(ob, prov, name) is not None:
                            return ('default-None-not-returned-after-a-cached-miss', obname, pn, name, first)
                # dict(lookupAll) maps every name to lookup(name); names lists its keys
                reg = fresh()
                spec = providedBy(ob)
                la = dict(reg.lookupAll((spec,), prov))
                nms = reg.names((spec,), prov)
                if sorted(nms) != sorted(la) or len(nms) != len(set(nms)):
                    return ('names-vs-lookupAll', obname, pn, sorted(nms), sorted(la))
                for nm_, v in la.items():
                    if reg.lookup((spec,), prov, nm_, SENT) is not v:
                        return ('lookupAll-vs-lookup', obname, pn, nm_)
                for nm_ in ('', 'n'):
                    if (nm_ in la) != (reg.lookup((spec,), prov, nm_, SENT) is not SENT):
                        return ('lookupAll-missing-name', obname, pn, nm_)
    return None


def eval_multi(h, flavour, stats):
    """queryMultiAdapter / subscribers with two objects, incl. a super proxy."""
    cls = FLAVOURS[flavour]
    for size in (1, 2):
        for combo in itertools.combinations(range(len(h.KEYS2)), size):
            for vals in itertools.product(range(len(h.VALS)), repeat=size):
                for o1, o2 in itertools.product(h.OBJ, repeat=2):
                    obs = (h.OBJ[o1], h.OBJ[o2])
                    reals = tuple(real_of(o) for o in obs)
                    specs = tuple(providedBy(o) for o in obs)
                    for pn, prov in h.P.items():
                        for name in ('', 'n'):
                            for warm in (False, True):
                                reg = cls()
                                for ci, vi in zip(combo, vals):
                                    k = h.KEYS2[ci]
                                    reg.register(list(k[0]), k[1], k[2], h.VALS[vi])
                                    reg.subscribe(list(k[0]), k[1], h.VALS[vi])
                                if warm:
                                    reg.queryMultiAdapter(obs, prov, name, SENT)
                                    reg.subscribers(obs, prov)
                                stats[0] += 1
                                f = reg.lookup(specs, prov, name, SENT)
                                got = reg.queryMultiAdapter(obs, prov, name, SENT)
                                if f is SENT:
                                    exp = SENT
                                else:
                                    r = f(*reals)
                                    exp = SENT if r is None else r
                                if not ((got is exp) if exp is SENT else
                                        (got == exp and all(a is b for a, b in zip(got[1], reals)))):
                                    return ('queryMultiAdapter', combo, vals, o1, o2, pn, name, warm)
                                subs = reg.subscriptions(specs, prov)
                                exps = [r for r in (s(*obs) for s in subs) if r is not None]
                                gots = reg.subscribers(obs, prov)
                                if [g[0] for g in gots] != [e[0] for e in exps] or \
                                        any(a is not b for g in gots for a, b in zip(g[1], obs)):
                                    return ('subscribers', combo, vals, o1, o2, pn, warm)
    # handlers: subscribers(obs, None) calls every handler and returns nothing
    calls = []
    reg = cls()

    def handler(*a):
        calls.append(a)
        return 'ignored'
    reg.subscribe([h.R0], None, handler)
    reg.subscribe([h.R1], None, handler)
    ob = h.OBJ['b']
    r = reg.subscribers((ob,), None)
    if r != () and r != [] or len(calls) != 2 or any(c != (ob,) for c in calls):
        return ('handlers', repr(r), len(calls))
    return None


def eval_badnames(h, flavour, stats):
    cls = FLAVOURS[flavour]
    reg = cls()
    reg.register([h.R0], h.P0, '', h.VALS[0])
    ob = h.OBJ['plain']
    for warmed in (False, True):
        if warmed:
            for ep in EPS:
                entry(reg, ep, ob, h.P0, '')
        for badname in (1, None, b'n', 1.5, ('',)):
            for ep in ('lookup', 'lookup_kw', 'lookup1', 'queryAdapter', 'adapter_hook',
                       'queryMultiAdapter'):
                stats[0] += 1
                try:
                    entry(reg, ep, ob, h.P0, badname)
                    return ('non-string-name-accepted', ep, repr(badname), warmed)
                except ValueError:
                    pass
                except Exception as e:
                    return ('non-string-name-wrong-exception', ep, repr(badname),
                            type(e).__name__, warmed)
    return None


def evaluate(arg):
    flavour, items = arg
    h = H()
    viol = []
    stats = [0]
    n = 0
    for it in items:
        n += 1
        try:
            if it[0] == 'reg':
                v = eval_registry(h, flavour, it[1], it[2], stats, it[3] if len(it) > 3 else None)
            elif it[0] == 'multi':
                v = eval_multi(h, flavour, stats)
            else:
                v = eval_badnames(h, flavour, stats)
        except EntryRaised as e:
            v = ('entry-point-raised', str(e)[:300])
        if v:
            viol.append(dict(sig='C08:' + v[0], case=dict(flavour=flavour, item=it),
                             detail=dict(flavour=flavour, item=it, violation=v)))
        gc.collect()
    return dict(n=n, viol=viol, checks=stats[0])


def _t(x):
    return tuple(_t(y) for y in x) if isinstance(x, (list, tuple)) else x


def replay(case):
    r = evaluate((case['flavour'], [_t(case['item'])]))
    return dict(violation=r['viol'][0]['detail']) if r['viol'] else None


def run(ctx):
    from ..runner import finish
    maxsize = 2 if ctx.tier == 'quick' else 3
    nkeys, nvals = 8, 3
    items = []
    for size in range(0, maxsize + 1):
        for combo in itertools.combinations(range(nkeys), size):
            for vals in itertools.product(range(nvals), repeat=size):
                items.append(('reg', combo, vals))
    # the same with some or all entries living in a base registry
    for size in (1, 2):
        for combo in itertools.combinations(range(nkeys), size):
            for places in itertools.product((0, 1), repeat=size):
                if any(places):
                    items.append(('reg', combo, tuple(range(size)), places))
    items += [('multi',), ('badnames',)]
    jobs = []
    for i in range(0, len(items), 4):
        jobs.append(items[i:i + 4])
    for impl in ('c', 'py'):
        for flavour in FLAVOURS:
            res = ctx.map(impl, 'evaluate', [(flavour, j) for j in jobs])
            for r in res:
                ctx.add(evaluations=r['checks'], states=r['n'])
                for v in r['viol']:
                    v['impl'] = impl
                ctx.violations(r['viol'])
            ctx.log(impl, flavour, 'checks so far', ctx.count['evaluations'])
    ctx.count['transitions'] = ctx.count['evaluations']
    ctx.count['distinct_nontrivial'] = ctx.count['states']
    ctx.sample(dict(registry=items[40], fields='(kind, indices into the key universe, indices into the factory list f/g/none-returning)'))
    ctx.sample(dict(entry_points=EPS, objects=['plain', 'subclass instance', 'directly providing', 'super proxy', 'unrelated']))
    return finish(
        ctx, 'model_checking',
        'every registry of size <= %d over 7 keys x 3 factories (value-returning, another, None-returning) x 5 objects x 2 provided x 2 names x 11 cache states (cold or warmed by one entry point) x 10 entry points, compared with the definitional equalities against a cold lookup()/subscriptions(); two-object queryMultiAdapter/subscribers; handlers; non-string names on every path warm and cold' % maxsize,
        'complete Cartesian product; states = registries, evaluations = individual entry-point comparisons')
