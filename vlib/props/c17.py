"""C17 — verifyObject / verifyClass accept exactly the conforming candidates.

E2 (a): interface-method signature x implementation signature (required 0-2 x
optional 0-2 x *args x **kwargs, squared) x {function attribute, bound method,
verifyClass with self}; oracle: for every call shape the interface signature
admits, inspect.signature(impl).bind succeeds <=> verification accepts.
E2 (b): every subset of defects x tentative x verifyObject/verifyClass;
oracle: exactly the expected failures are reported.
"""
import inspect
import itertools

from zope.interface import Interface, implementer, Attribute, directlyProvides
from zope.interface.interface import InterfaceClass, Method, fromFunction
from zope.interface.verify import verifyObject, verifyClass
from zope.interface.exceptions import (
    BrokenMethodImplementation, BrokenImplementation, DoesNotImplement,
    MultipleInvalid, Invalid)
from .common import wmod, newworld


def sig_src(r, o, va, kw, self=False):
    ps = (['self'] if self else []) + ['a%d' % i for i in range(r)] + \
        ['b%d=%d' % (i, i) for i in range(o)]
    if va:
        ps.append('*args')
    if kw:
        ps.append('**kw')
    return ', '.join(ps)


def mkfunc(src, name='m'):
    d = {}
    exec('def %s(%s): pass' % (name, src), d)
    return d[name]


class _MethodSub(Method):
    pass


def shapes(r, o, va, kw, big):
    """Call shapes the interface signature admits: (positional count, unknown keyword?)"""
    out = [(n, False) for n in range(r, r + o + 1)]
    if va:
        out += [(r + o + 1, False), (r + o + 2, False), (big, False)]
    if kw:
        out += [(n, True) for n, _ in list(out)]
    return out


def binds(f, n, k, bound):
    s = inspect.signature(f)
    args = ([object()] if bound else []) + [0] * n
    try:
        s.bind(*args, **({'zz_unknown': 1} if k else {}))
        return True
    except TypeError:
        return False


def eval_pair(case):
    (ir, io, iva, ikw), (mr, mo, mva, mkw), kind, big = case
    newworld()
    idesc = mkfunc(sig_src(ir, io, iva, ikw))
    if kind == 'method/description-of-a-Method-subclass':
        # the description is an instance of a subclass of Method
        idesc = fromFunction(idesc, name='m')
        idesc.__class__ = _MethodSub
        kind = 'method'
    elif kind == 'method/description-named-differently':
        # the description stored under the key 'm' calls itself something else
        idesc = fromFunction(idesc, name='zz_other')
        kind = 'method'
    I = InterfaceClass('I', (Interface,), {'m': idesc, '__module__': wmod()})
    if kind == 'staticmethod-inherited-class':
        # the staticmethod is defined by a base class of the class that implements I
        Kb = type('Kb', (), {'m': staticmethod(mkfunc(sig_src(mr, mo, mva, mkw)))})
        K = implementer(I)(type('K', (Kb,), {}))
        cand = K
        impl, bound, v = K.m, False, verifyClass
    elif kind == 'func-attr':
        K = implementer(I)(type('K', (), {}))
        cand = K()
        cand.m = mkfunc(sig_src(mr, mo, mva, mkw))
        impl, bound, v = cand.m, False, verifyObject
    elif kind == 'method':
        K = implementer(I)(type('K', (), {'m': mkfunc(sig_src(mr, mo, mva, mkw, self=True))}))
        cand = K()
        impl, bound, v = cand.m, False, verifyObject
    elif kind == 'method-noself':
        # the implementation takes its instance through *args: def m(*args[, **kw])
        if mr or mo or not mva:
            return None, None
        K = implementer(I)(type('K', (), {'m': mkfunc(sig_src(0, 0, 1, mkw))}))
        cand = K()
        impl, bound, v = cand.m, False, verifyObject
    elif kind == 'class-custom-descriptor':
        # a decorator written as a descriptor class: the plain function on
        # class access, a bound method on instance access
        import types as _types

        class Desc:
            def __init__(s, f):
                s.f = f

            def __get__(s, inst, owner):
                return s.f if inst is None else _types.MethodType(s.f, inst)
        K = implementer(I)(type('K', (), {'m': Desc(mkfunc(sig_src(mr, mo, mva, mkw, self=True)))}))
        cand = K
        impl, bound, v = K.m, True, verifyClass
    elif kind == 'method-bound-twice':
        # a method object wrapped around another method object: two leading
        # parameters are taken. Whether the library looks into it at all is
        # its business; if it does, a conforming one must not be rejected
        import types as _types
        if mr < 1:
            return None, None
        K = implementer(I)(type('K', (), {}))
        cand = K()
        inner = _types.MethodType(mkfunc(sig_src(mr, mo, mva, mkw, self=True)), cand)
        cand.m = _types.MethodType(inner, object())
        impl, bound, v = cand.m, False, verifyObject
    elif kind == 'class-noself':
        # verifyClass of a class whose method takes its instance through *args
        if mr or mo or not mva:
            return None, None
        K = implementer(I)(type('K', (), {'m': mkfunc(sig_src(0, 0, 1, mkw))}))
        cand = K
        impl, bound, v = K.m, True, verifyClass
    elif kind == 'class':
        K = implementer(I)(type('K', (), {'m': mkfunc(sig_src(mr, mo, mva, mkw, self=True))}))
        cand = K
        impl, bound, v = K.m, True, verifyClass
    elif kind == 'staticmethod-class':
        # a staticmethod of a class that *implements* I, under verifyClass:
        # instances call it without an instance argument
        K = implementer(I)(type('K', (), {'m': staticmethod(mkfunc(sig_src(mr, mo, mva, mkw)))}))
        cand = K
        impl, bound, v = K.m, False, verifyClass
    elif kind == 'staticmethod-on-provider':
        # a class that *directly provides* I with a staticmethod: verifyObject(I, K)
        K = type('K', (), {'m': staticmethod(mkfunc(sig_src(mr, mo, mva, mkw)))})
        directlyProvides(K, I)
        cand = K
        impl, bound, v = K.m, False, verifyObject
    exp = all(binds(impl, n, k, bound) for n, k in shapes(ir, io, iva, ikw, big))
    try:
        r = v(I, cand)
        got = True
        if r is not True:
            return ('return-value', r), exp
    except BrokenMethodImplementation:
        got = False
    except Invalid as e:
        return ('unexpected-exception', type(e).__name__), exp
    if case[2] == 'method-bound-twice' and got and not exp:
        return None, exp        # not looked into: acceptable
    if exp != got:
        return ('accepts' if got else 'rejects', 'iface(%s)' % sig_src(ir, io, iva, ikw),
                'impl(%s)' % sig_src(mr, mo, mva, mkw, kind not in ('func-attr', 'staticmethod-on-provider', 'staticmethod-class', 'staticmethod-inherited-class')), case[2]), exp
    return None, exp


def eval_reuse(case):
    """Verification keeps no memory: one implementation function reached in
    two roles (a plain function stored on an instance, where its first
    parameter is an ordinary one; a method of a class, where it is self; the
    class itself under verifyClass), verified in either order, is judged each
    time exactly as a fresh copy of the function is."""
    (ir, io, iva, ikw), (mr, mo, mva, mkw), order = case
    newworld()
    I = InterfaceClass('I', (Interface,), {'m': mkfunc(sig_src(ir, io, iva, ikw)),
                                           '__module__': wmod()})
    src = sig_src(mr, mo, mva, mkw, self=True)

    def verdict(f, role):
        if role == 'func-attr':
            K = implementer(I)(type('K', (), {}))
            cand = K()
            cand.m = f
            v = verifyObject
        elif role == 'method':
            cand = implementer(I)(type('K', (), {'m': f}))()
            v = verifyObject
        else:
            cand = implementer(I)(type('K', (), {'m': f}))
            v = verifyClass
        try:
            v(I, cand)
            return True
        except BrokenMethodImplementation:
            return False
    shared = mkfunc(src)
    for role in order:
        cold = verdict(mkfunc(src), role)
        got = verdict(shared, role)
        if got != cold:
            return ('verdict-depends-on-earlier-verification', 'iface(%s)' % sig_src(ir, io, iva, ikw),
                    'impl(%s)' % src, order, role, got, cold)
    return None


DEFECTS = ['no_at', 'no_al', 'no_bat', 'no_m1', 'bad_m2', 'no_bm', 'undeclared', 'm3_not_callable']
# bm is *overridden*: IBase says bm(x), I says bm(x, y); only the override counts


def eval_subset(case):
    flags, tentative, vkind = case
    newworld()
    flags = set(flags)
    IBase = InterfaceClass('IBase', (Interface,), {
        'bat': Attribute('the base attr'), 'bm': mkfunc('x', 'bm'), '__module__': wmod()})
    # a diamond in which only the later branch overrides bm: IBase.bm(x),
    # IS1(IBase) inherits it, IS2(IBase) says bm(x, y); I(IS1, IS2)
    IS1 = InterfaceClass('IS1', (IBase,), {'__module__': wmod()})
    IS2 = InterfaceClass('IS2', (IBase,), {'bm': mkfunc('x, y', 'bm'), '__module__': wmod()})
    I = InterfaceClass('I', (IS1, IS2), {
        'at': Attribute('the attr'), 'al': Attribute('zz_al'), 'm1': mkfunc('', 'm1'), 'm2': mkfunc('a, b', 'm2'),
        'm3': mkfunc('', 'm3'), '__module__': wmod()})
    ns = {}
    if 'no_m1' not in flags:
        ns['m1'] = mkfunc('self', 'm1')
    ns['m2'] = mkfunc('self, a, b, c' if 'bad_m2' in flags else 'self, a, b=1', 'm2')
    if 'no_bm' not in flags:
        ns['bm'] = mkfunc('x, y' if vkind == 'provider' else 'self, x, y', 'bm')
    ns['m3'] = 42 if 'm3_not_callable' in flags else mkfunc('self', 'm3')
    # attributes live on the class so that verifyClass can see them too
    if 'no_at' not in flags:
        ns['at'] = 1
    if 'no_bat' not in flags:
        ns['bat'] = 2
    # the interface stores Attribute('zz_al') under the key 'al': the key counts
    if 'no_al' not in flags:
        ns['al'] = 3
    if vkind == 'provider':
        # the class object itself is the candidate: its functions are reached
        # unbound, so they take no self
        for nm_ in ('m1', 'm2', 'm3'):
            if callable(ns.get(nm_)):
                ns[nm_] = staticmethod(mkfunc(
                    {'m1': '', 'm3': ''}.get(nm_, 'a, b, c' if 'bad_m2' in flags else 'a, b=1'), nm_))
        if 'bm' in ns:
            ns['bm'] = staticmethod(ns['bm'])
    K = type('K', (), ns)
    if vkind == 'provider':
        if 'undeclared' not in flags:
            directlyProvides(K, I)
    elif 'undeclared' not in flags:
        implementer(I)(K)
    exp = []
    if 'undeclared' in flags and not tentative:
        exp.append(('DoesNotImplement', None))
    if vkind in ('object', 'provider'):
        # attributes are only required of objects (a class that provides the
        # interface is such an object)
        if 'no_at' in flags:
            exp.append(('BrokenImplementation', 'at'))
        if 'no_bat' in flags:
            exp.append(('BrokenImplementation', 'bat'))
        if 'no_al' in flags:
            exp.append(('BrokenImplementation', 'zz_al'))
    if 'no_m1' in flags:
        exp.append(('BrokenImplementation', 'm1'))
    if 'no_bm' in flags:
        exp.append(('BrokenImplementation', 'bm'))
    if 'bad_m2' in flags:
        exp.append(('BrokenMethodImplementation', 'm2'))
    if 'm3_not_callable' in flags:
        exp.append(('BrokenMethodImplementation', 'm3'))
    cand = K() if vkind == 'object' else K
    v = verifyClass if vkind == 'class' else verifyObject

    def desc(e):
        t = type(e).__name__
        nm = None
        if isinstance(e, BrokenMethodImplementation):
            nm = e.method if isinstance(e.method, str) else getattr(e.method, '__name__', None) or e.method.getName()
        elif isinstance(e, BrokenImplementation):
            nm = e.name if isinstance(e.name, str) else e.name.getName()
        return (t, nm)
    try:
        r = v(I, cand, tentative=tentative)
        got = []
        shape = 'accepted'
    except MultipleInvalid as e:
        got = [desc(x) for x in e.exceptions]
        shape = 'multiple'
        if e.interface is not I or e.target is not cand:
            return ('MultipleInvalid-wrong-subject',)
    except Invalid as e:
        got = [desc(e)]
        shape = 'single'
    expshape = 'accepted' if not exp else 'single' if len(exp) == 1 else 'multiple'
    if sorted(got, key=repr) != sorted(exp, key=repr):
        return ('failures-reported', sorted(got, key=repr), sorted(exp, key=repr))
    if shape != expshape:
        return ('report-shape', shape, expshape)
    return None


def evaluate(arg):
    viol = []
    n = 0
    acc = rej = 0
    for kind, case in arg:
        n += 1
        if kind == 'pair':
            v, exp = eval_pair(case)
            if exp is None and v is None:
                n -= 1
                continue
            acc += bool(exp)
            rej += not exp
        elif kind == 'reuse':
            v = eval_reuse(case)
        else:
            v = eval_subset(case)
        if v:
            viol.append(dict(sig='C17:%s:%s' % (kind, v[0]), case=dict(kind=kind, case=case),
                             detail=dict(case=case, violation=v)))
    return dict(n=n, viol=viol, acc=acc, rej=rej)


def _t(x):
    return tuple(_t(y) for y in x) if isinstance(x, (list, tuple)) else x


def replay(case):
    c = _t(case['case'])
    v = eval_pair(c)[0] if case['kind'] == 'pair' else eval_reuse(c) if case['kind'] == 'reuse' \
        else eval_subset(c)
    return dict(violation=v) if v else None


def run(ctx):
    from ..runner import finish, chunks
    mx = 3 if ctx.tier == 'quick' else 4
    GRID = list(itertools.product(range(mx), range(mx), (0, 1), (0, 1)))
    big = 2 * mx + 5          # more surplus positionals than any implementation in the grid absorbs
    cases = [('pair', (a, b, k, big)) for a in GRID for b in GRID
             for k in ('func-attr', 'method', 'class', 'staticmethod-on-provider', 'method-noself',
                       'staticmethod-class', 'staticmethod-inherited-class', 'class-noself',
                       'class-custom-descriptor', 'method-bound-twice',
                       'method/description-of-a-Method-subclass',
                       'method/description-named-differently')]
    for r in range(0, len(DEFECTS) + 1):
        for flags in itertools.combinations(DEFECTS, r):
            for tentative in (False, True):
                for vk in ('object', 'class', 'provider'):
                    cases.append(('subset', (flags, tentative, vk)))
    ROLES = ('func-attr', 'method', 'class')
    cases += [('reuse', (a, b, o)) for a in GRID for b in GRID
              for o in itertools.permutations(ROLES, 2)]
    for impl in ('c', 'py'):
        res = ctx.map(impl, 'evaluate', chunks(cases, 300))
        for r in res:
            ctx.add(evaluations=r['n'], accepted_pairs=r['acc'], rejected_pairs=r['rej'])
            for v in r['viol']:
                v['impl'] = impl
            ctx.violations(r['viol'])
    ctx.count['states'] = len(cases)
    ctx.count['transitions'] = ctx.count['evaluations']
    ctx.count['distinct_nontrivial'] = len(cases)
    ctx.sample(dict(pair=cases[len(cases) // 3][1], fields='(interface (required, optional, *args, **kw), implementation (...), kind, surplus count)'))
    ctx.sample(dict(subset=[c for c in cases if c[0] == 'subset'][-5][1]))
    ctx.sample(dict(reuse=cases[-5][1], fields='(interface signature, implementation signature (+self), the two roles in which the same function object is verified, in order)'))
    return finish(
        ctx, 'model_checking',
        'all pairs of interface-method and implementation signatures in the grid x 12 candidate kinds (functions stored on instances, methods, classes under verifyClass, own and inherited staticmethods, instances taken through *args, descriptions that are instances of a Method subclass or carry another name than their key), decided by binding every call shape the interface admits with inspect.signature; all 2^8 subsets of defects x tentative x verifyObject/verifyClass compared with the exact expected list of failures',
        'complete Cartesian products; states = cases')
