"""C20 — declaration algebra: iteration, membership, + and - obey ordered-set laws.

E2: declarations from every argument list of length <= 3 over five interfaces
with nesting variants (tuple-wrapped, list-wrapped, declaration-wrapped),
class specifications and instance declarations; all pairs for +, -, in.
"""
import gc
import itertools

from zope.interface import (Interface, Declaration, implementedBy, classImplements,
                            classImplementsOnly, directlyProvides, providedBy,
                            directlyProvidedBy, alsoProvides, noLongerProvides)
from zope.interface.interface import InterfaceClass
from .common import wmod, newworld

BASES = {'I0': (), 'I1': ('I0',), 'I2': ('I0',), 'I3': ('I1', 'I2'), 'J': ()}
NAMES = list(BASES)


def mkifaces():
    newworld()
    I = {}
    for n, bs in BASES.items():
        I[n] = InterfaceClass(n, tuple(I[b] for b in bs) or (Interface,), {'__module__': wmod()})
    return I


def ext(a, b):
    return a == b or any(ext(x, b) for x in BASES[a])


def dedupe(xs):
    out = []
    for x in xs:
        if x not in out:
            out.append(x)
    return out


def variants(a, I):
    """Different ways of passing the same interfaces to Declaration()."""
    A = [I[x] for x in a]
    yield 'flat', tuple(A)
    if len(A) >= 1:
        yield 'tuple-all', (tuple(A),)
        yield 'list-all', (list(A),)
        yield 'decl-all', (Declaration(*A),)
        # one-shot iterators at the top and one level down
        yield 'iter-all', (iter(list(A)),)
        yield 'generator-all', ((x for x in A),)
        yield 'list-of-iter', ([iter(list(A))],)
    if len(A) >= 2:
        yield 'tail-tuple', (A[0], tuple(A[1:]))
        yield 'tail-reversed-iter', (A[0], reversed(list(reversed(A[1:]))))
        yield 'mixed', ((A[0],), [A[1]]) + tuple(A[2:])
        yield 'decl-head', (Declaration(*A[:2]),) + tuple(A[2:])
        yield 'decl-tail', (A[0], Declaration(A[1], *A[2:]))
        yield 'nested-2', (((A[0],), (A[1],)),) + tuple(A[2:])


def nm(xs):
    return [x.__name__ for x in xs]


def check_decl(d, exp, I, label):
    got = nm(d)
    if got != exp:
        return ('iter', label, got, exp)
    for n in NAMES:
        if (I[n] in d) != (n in exp):
            return ('contains', label, n)
    if (Interface in d) and 'Interface' not in exp:
        return ('contains-root', label)
    fl = nm(d.flattened())
    expfl = set()
    for x in exp:
        expfl |= {y for y in NAMES if ext(x, y)}
    if set(fl) - {'Interface'} != expfl or len(fl) != len(set(fl)) or (fl and fl[-1] != 'Interface'):
        return ('flattened', label, fl, sorted(expfl))
    if fl != nm(d.__iro__):
        return ('flattened-is-iro', label)
    # resolution order: every interface before the ones it extends
    pos = {x: i for i, x in enumerate(fl)}
    for x in fl:
        if x != 'Interface':
            for y in NAMES:
                if y != x and ext(x, y) and pos[x] > pos[y]:
                    return ('flattened-order', label, fl)
    return None


def eval_construct(a):
    I = mkifaces()
    exp = dedupe(a)
    for vn, v in variants(a, I):
        d = Declaration(*v)
        r = check_decl(d, exp, I, (a, vn))
        if r:
            return r
    return None


def eval_pair(case):
    a, b = case
    I = mkifaces()
    ea, eb = dedupe(a), dedupe(b)
    A = Declaration(*[I[x] for x in a])
    B = Declaration(*[I[x] for x in b])
    S = nm(A - B)
    expS = [x for x in ea if not any(ext(x, y) for y in eb)]
    if S != expS:
        return ('sub', a, b, S, expS)
    Pd = A + B
    P = nm(Pd)
    new = [x for x in eb if x not in ea]
    if set(P) != set(ea) | set(eb) or len(P) != len(set(P)):
        return ('add-set', a, b, P)
    if [x for x in P if x in ea] != ea:
        return ('add-order-of-A', a, b, P)
    posA = [P.index(x) for x in ea]
    for x in new:
        extA = any(ext(x, y) and x != y for y in ea)
        extNew = any(ext(x, y) and x != y for y in new)
        p = P.index(x)
        if extA and ea and not p < min(posA):
            return ('add-extending-goes-in-front', a, b, x, P)
        if not extA and not extNew and ea and not p > max(posA):
            return ('add-others-go-to-the-end', a, b, x, P)
    if nm(A) != ea or nm(B) != eb:
        return ('operand-modified', a, b)
    r = check_decl(Pd, P, I, ('sum', a, b))
    if r:
        return r
    # subtraction accepts a bare interface too, and the result is a declaration again
    if b:
        S1 = nm(A - I[b[0]])
        if S1 != [x for x in ea if not ext(x, b[0])]:
            return ('sub-interface', a, b[0], S1)
    # addition accepts a bare interface (and a class specification) as well
    if b:
        P1 = A + I[b[0]]
        want = nm(A + Declaration(I[b[0]]))
        try:
            got1 = [getattr(x, '__name__', repr(x)) for x in P1]
        except Exception as e:          # noqa: BLE001 - whatever iteration of the result raises
            got1 = ['raised ' + type(e).__name__]
        if got1 != want or (I[b[0]] in P1) is not True:
            return ('add-interface', a, b[0], got1, want)
        K = type('K', (), {})
        classImplements(K, *[I[x] for x in b])
        P2 = A + implementedBy(K)
        if nm(P2) != P or not all(I[x] in P2 for x in P):
            return ('add-class-specification', a, b, nm(P2), P)
        if nm(implementedBy(K)) != eb:
            return ('operand-modified-class-specification', a, b)
    if nm((A - B) + B) and set(nm((A - B) + B)) != set(expS) | set(eb):
        return ('sub-then-add', a, b)
    return None


def eval_classspec(case):
    """Class specifications list declared then inherited interfaces; instance
    declarations list direct then class interfaces."""
    da, db, only, direct = case
    I = mkifaces()
    A = type('A', (), {})
    B = type('B', (A,), {})
    if da:
        classImplements(A, *[I[x] for x in da])
    if only:
        classImplementsOnly(B, *[I[x] for x in db])
    elif db:
        classImplements(B, *[I[x] for x in db])
    eA = dedupe(da)
    sA, sB = implementedBy(A), implementedBy(B)
    if nm(sA) != eA:
        return ('classspec-iter', 'A', nm(sA), eA)
    got = nm(sB)
    declared = nm(sB.declared)
    if only:
        eB = dedupe(db)
        if got != eB:
            return ('classspec-iter-only', nm(sB), eB)
    else:
        # declared (minus what was redundant when declared) then inherited
        # a declaration already implied by the inherited ones when it is made
        # is dropped, as documented
        keep = [x for x in db if not any(ext(y, x) for y in eA)]
        if set(got) != set(eA) | set(keep) or len(got) != len(set(got)):
            return ('classspec-iter-set', got, sorted(set(eA) | set(keep)))
        if got[:len(declared)] != declared:
            return ('classspec-declared-first', got, declared)
        if [x for x in got if x not in declared] != [x for x in eA if x not in declared]:
            return ('classspec-inherited-order', got, eA)
        for x in db:
            if x not in declared and not any(ext(y, x) for y in eA):
                return ('classspec-declaration-dropped', x, got)
    for n in NAMES:
        if (I[n] in sB) != (n in got):
            return ('classspec-contains', n)
    # membership is about the interfaces iteration yields: a class specification
    # that is a *base* of a declaration is not one of them
    probes = [('sA in sB', sA, sB), ('sA in Declaration(sA, J)', sA, Declaration(sA, I['J'])),
              ('sB in Declaration(J, sB)', sB, Declaration(I['J'], sB))]
    for label, x, d in probes:
        if (x in d) is not False or any(y is x for y in d):
            return ('class-specification-counts-as-a-member', label)
    if not only:
        # the documented way of keeping what a class lists while cutting it off
        # from its bases; what implementedBy(B) stands for is flattened in place
        for x in NAMES:
            for first in (False, True):
                newB = type('B2', (A,), {})
                if db:
                    classImplements(newB, *[I[y] for y in db])
                before2 = nm(implementedBy(newB))
                args = [I[x], implementedBy(newB)] if first else [implementedBy(newB), I[x]]
                classImplementsOnly(newB, *args)
                want = dedupe(([x] + before2) if first else (before2 + [x]))
                if nm(implementedBy(newB)) != want:
                    return ('classImplementsOnly-with-own-specification-order', da, db, x, first,
                            nm(implementedBy(newB)), want)
    b = B()
    if direct:
        directlyProvides(b, *[I[x] for x in direct])
        p = providedBy(b)
        if (sB in p) is not False:
            return ('class-specification-counts-as-a-member', 'implementedBy(type(ob)) in providedBy(ob)')
        got_p = nm(p)
        dp = nm(directlyProvidedBy(b))
        kept = [x for x in direct if not any(ext(y, x) for y in got)]
        if set(got_p) != set(kept) | set(got) or len(got_p) != len(set(got_p)):
            return ('provides-iter-set', got_p, direct, got)
        if got_p[:len(dp)] != dp:
            return ('provides-direct-first', got_p, dp)
        # alsoProvides / noLongerProvides are users of + and -
        before = nm(directlyProvidedBy(b))
        alsoProvides(b, I['J'])
        after = nm(directlyProvidedBy(b))
        if set(after) != set(before) | ({'J'} if 'J' not in got else set()):
            return ('alsoProvides', before, after)
        if 'J' not in got:
            noLongerProvides(b, I['J'])
            again = nm(directlyProvidedBy(b))
            if set(again) != set(before) - {'J'}:
                return ('noLongerProvides', before, again)
    return None


def eval_users(case):
    """alsoProvides / noLongerProvides / directlyProvidedBy are users of + and -:
    noLongerProvides(ob, X) leaves directlyProvidedBy(ob) - X (X *and whatever
    extends X* is gone) and raises ValueError exactly when the class still
    provides X; alsoProvides(ob, X) adds X without disturbing the
    others (it re-declares rather than using +, so where X lands is not
    constrained)."""
    da, direct, x = case
    I = mkifaces()
    A = type('A', (), {})
    if da:
        classImplements(A, *[I[n] for n in da])
    eA = dedupe(da)
    cls_implies = lambda n: any(ext(y, n) for y in eA)
    # --- noLongerProvides
    b = A()
    directlyProvides(b, *[I[n] for n in direct])
    before = nm(directlyProvidedBy(b))
    if set(before) != {n for n in direct if not cls_implies(n)}:
        return ('directlyProvidedBy', da, direct, before)
    exp_after = [n for n in before if not ext(n, x)]
    try:
        noLongerProvides(b, I[x])
        raised = False
    except ValueError:
        raised = True
    if raised != cls_implies(x):
        return ('noLongerProvides-raises', da, direct, x, raised, cls_implies(x))
    after = nm(directlyProvidedBy(b))
    if after != exp_after:
        return ('noLongerProvides-result', da, direct, x, after, exp_after)
    for n in NAMES:
        want = cls_implies(n) or any(ext(y, n) for y in exp_after)
        if I[n].providedBy(b) != want:
            return ('noLongerProvides-providedBy', da, direct, x, n, want)
    # --- alsoProvides
    c = A()
    directlyProvides(c, *[I[n] for n in direct])
    before = nm(directlyProvidedBy(c))
    alsoProvides(c, I[x])
    after = nm(directlyProvidedBy(c))
    new = [] if (x in before or cls_implies(x)) else [x]
    if set(after) != set(before) | set(new) or len(after) != len(set(after)):
        return ('alsoProvides-set', da, direct, x, after)
    if [n for n in after if n in before] != before:
        return ('alsoProvides-order', da, direct, x, after, before)
    if not I[x].providedBy(c):
        return ('alsoProvides-providedBy', da, direct, x)
    # --- a declaration built from what an object provides is built from the
    # interfaces it iterates *at that moment* (declarations passed as arguments
    # are flattened): later declarations on the class do not reach it
    e = A()
    directlyProvides(e, *[I[n] for n in direct])
    snap = Declaration(providedBy(e))
    snap2 = Declaration(Declaration(providedBy(e)), [directlyProvidedBy(e)])
    before = (nm(snap), nm(snap2), nm(snap.flattened()))
    Late = InterfaceClass('Late', (Interface,), {'__module__': wmod()})
    classImplements(A, Late)
    alsoProvides(e, I[x])
    if (nm(snap), nm(snap2), nm(snap.flattened())) != before or Late in snap or Late in snap2:
        return ('declaration-built-from-providedBy-changes-later', da, direct, x, before, nm(snap))
    # --- a class specification among the direct declarations (legal: any
    # specification can be declared): it is part of what is directly provided
    # and survives later alsoProvides / noLongerProvides
    if 'J' not in direct and 'J' not in da and x != 'J':
        Other = type('Other', (), {})
        classImplements(Other, I['J'])
        d = A()
        directlyProvides(d, *([I[n] for n in direct] + [implementedBy(Other)]))
        want = {n for n in direct if not cls_implies(n)} | {'J'}
        if set(nm(directlyProvidedBy(d))) != want:
            return ('directlyProvidedBy-with-class-spec', da, direct, nm(directlyProvidedBy(d)))
        alsoProvides(d, I[x])
        if not I['J'].providedBy(d) or 'J' not in nm(directlyProvidedBy(d)):
            return ('alsoProvides-drops-class-spec', da, direct, x)
        if not cls_implies(x):
            noLongerProvides(d, I[x])
            if not I['J'].providedBy(d):
                return ('noLongerProvides-drops-class-spec', da, direct, x)
    return None


def eval_also(case):
    """IInterfaceDeclaration documents ``alsoProvides(ob, *new)`` as equivalent
    to ``directlyProvides(ob, directlyProvidedBy(ob), *new)``; with arguments
    flattened in place that is: what was directly provided, in order, then the
    new interfaces, in order.  Checked against a twin object on which the long
    form is spelled out, with and without a class specification among the
    earlier direct declarations (it stays a live base)."""
    da, direct, xs, with_spec = case
    I = mkifaces()
    A = type('A', (), {})
    if da:
        classImplements(A, *[I[n] for n in da])
    Other = type('Other', (), {})
    classImplements(Other, I['J'])
    extra = [implementedBy(Other)] if with_spec else []
    c, t = A(), A()
    for ob in (c, t):
        directlyProvides(ob, *([I[n] for n in direct] + extra))
    alsoProvides(c, *[I[n] for n in xs])
    directlyProvides(t, directlyProvidedBy(t), *[I[n] for n in xs])
    got, want = nm(directlyProvidedBy(c)), nm(directlyProvidedBy(t))
    if got != want:
        return ('alsoProvides-differs-from-its-documented-equivalent', da, direct, xs, with_spec, got, want)
    rb = lambda ob: [getattr(b, '__name__', '?') for b in directlyProvidedBy(ob).__bases__]
    if rb(c) != rb(t):
        return ('alsoProvides-bases-differ-from-documented-equivalent', da, direct, xs, with_spec, rb(c), rb(t))
    if with_spec:
        Late = InterfaceClass('Late', (Interface,), {'__module__': wmod()})
        classImplements(Other, Late)
        if Late.providedBy(c) != Late.providedBy(t) or (Late in directlyProvidedBy(c)) != (Late in directlyProvidedBy(t)):
            return ('alsoProvides-freezes-a-declared-class-specification', da, direct, xs)
    if nm(providedBy(c)) != nm(providedBy(t)):
        return ('alsoProvides-providedBy-differs-from-documented-equivalent', da, direct, xs, with_spec)
    return None


def _kinds():
    return {'construct': eval_construct, 'pair': eval_pair,
            'classspec': eval_classspec, 'users': eval_users, 'also': eval_also}


def evaluate(arg):
    viol = []
    n = 0
    for kind, case in arg:
        n += 1
        v = _kinds()[kind](case)
        if v:
            viol.append(dict(sig='C20:%s:%s' % (kind, v[0]), case=dict(kind=kind, case=case),
                             detail=dict(case=case, violation=v)))
        if n % 400 == 0:
            gc.collect()
    gc.collect()
    return dict(n=n, viol=viol)


def _t(x):
    return tuple(_t(y) for y in x) if isinstance(x, (list, tuple)) else x


def replay(case):
    c = _t(case['case'])
    v = _kinds()[case['kind']](c)
    return dict(violation=v) if v else None


def run(ctx):
    from ..runner import finish, chunks
    quick = ctx.tier == 'quick'
    L = 3 if quick else 4
    arglists = [c for n in range(0, L + 1) for c in itertools.product(NAMES, repeat=n)]
    cases = [('construct', a) for a in arglists]
    small = [a for a in arglists if len(a) <= (2 if quick else 3)]
    right = [a for a in arglists if len(a) <= 3]
    cases += [('pair', (a, b)) for a in small for b in right]
    two = [a for a in arglists if len(a) <= 2]
    cases += [('classspec', (da, db, only, direct)) for da in two for db in two
              for only in (False, True) for direct in [(), ('I1',), ('J', 'I3'), ('I0',)]]
    one = [a for a in arglists if len(a) <= 1]
    cases += [('users', (da, direct, x)) for da in one
              for direct in arglists if len(direct) <= (2 if quick else 3) for x in NAMES]
    cases += [('also', (da, direct, xs, ws)) for da in one for direct in two
              for xs in arglists if 1 <= len(xs) <= (2 if quick else 3) for ws in (False, True)]
    for impl in ('c', 'py'):
        res = ctx.map(impl, 'evaluate', chunks(cases, 500))
        for r in res:
            ctx.add(evaluations=r['n'])
            for v in r['viol']:
                v['impl'] = impl
            ctx.violations(r['viol'])
    ctx.count['states'] = len(cases)
    ctx.count['transitions'] = ctx.count['evaluations']
    ctx.count['distinct_nontrivial'] = len(cases)
    ctx.info['constructions'] = len(arglists)
    ctx.sample(dict(pair=cases[len(arglists) + 777][1]))
    ctx.sample(dict(users=cases[-9][1], fields='(declared on the class, directly provided, interface passed to noLongerProvides / alsoProvides)'))
    ctx.sample(dict(classspec=[c for c in cases if c[0] == 'classspec'][-9][1], fields='(declared on A, declared on B(A), only-form?, directly provided)'))
    ctx.assumptions += ['the relative order among B\'s own new interfaces in A + B is not constrained (the property does not state it); a new interface that extends only another new interface may be placed in front']
    return finish(
        ctx, 'model_checking',
        'every argument list up to length %d over I0, I1(I0), I2(I0), I3(I1,I2), J in 9 nesting variants, every pair of declarations under + - and in, and class/instance specifications, compared with an ordered-set model' % L,
        'complete enumeration; states = cases')
