"""C13 — specifications pickle by reference and unpickle to the live object.

E2: every class shape x instance shape x pickle protocol of the importable
fixture module fixtures/zi_fix13.py; unpickled in the same process, in a
fresh process of the same implementation and in a process running the other
implementation.
"""
import pickle
import pickletools

import zi_fix13 as m
from zope.interface import providedBy, implementedBy, Interface
from zope.interface.declarations import Provides

PROTOS = list(range(0, pickle.HIGHEST_PROTOCOL + 1))
MARKERS = (b'DEFINITION-MARKER', b'definition_marker', b'__attrs', b'_implied',
           b'__iro__', b'__sro__', b'dependents')


def names(spec):
    return sorted(x.__name__ for x in spec.flattened())


def subjects():
    """(subject id, object) for everything the property names."""
    out = []
    for I in m.IFACES + (Interface,):
        out.append((('iface', I.__name__), I))
    for f in m.FACTORIES:
        out.append((('implements', f.__name__), implementedBy(f)))
    for T in m.BUILTINS:
        out.append((('implements', 'builtin:' + T.__name__), implementedBy(T)))
        out.append((('object', 'builtin:' + T.__name__, 'plain'), T()))
    for cn, nm_ in m.EARLY:
        o = getattr(m, nm_)
        out.append((('object', cn, nm_), o))
        out.append((('provides', cn, nm_), o.__dict__.get('__provides__')))
    for K in m.CLASSES:
        out.append((('implements', K.__name__), implementedBy(K)))
        out.append((('classprovides', K.__name__), getattr(K, '__provides__', None)))
        for shape in m.INSTANCE_SHAPES:
            o = m.make(K, shape)
            out.append((('object', K.__name__, shape), o))
            out.append((('provides', K.__name__, shape), o.__dict__.get('__provides__')))
    return out


def by_reference_only(data):
    """The pickle holds only global references and reduce calls on them."""
    if any(mk in data for mk in MARKERS):
        return 'definition text found in the pickle'
    return None


def _cls(name):
    import builtins
    return getattr(builtins, name[8:]) if name.startswith('builtin:') else getattr(m, name)


def describe(sid, x):
    """What a process can say about the value, comparable across processes."""
    kind = sid[0]
    if x is None:
        return ('none',)
    if kind == 'iface':
        return ('iface', x is (Interface if sid[1] == 'Interface' else getattr(m, sid[1])), hash(x) == hash((x.__name__, x.__module__)))
    if kind == 'implements':
        return ('implements', x is implementedBy(_cls(sid[1])), names(x))
    if kind == 'classprovides':
        cls = getattr(m, sid[1])
        return ('classprovides', names(x), names(providedBy(cls)))
    if kind == 'provides':
        return ('provides', names(x), type(x).__name__)
    if kind == 'object':
        return ('object', type(x) is _cls(sid[1]), names(providedBy(x)))


def check_local(sid, x):
    """Round trips in this process; returns (violation or None, {proto: bytes})."""
    blobs = {}
    kind = sid[0]
    soft = None
    for proto in PROTOS:
        try:
            data = pickle.dumps(x, proto)
            y = pickle.loads(data)
        except Exception as e:
            return (kind + ':exception', sid, proto, repr(e)), blobs
        blobs[proto] = data
        if x is None:
            continue
        v = by_reference_only(data)
        if v:
            return (kind + ':not-by-reference', sid, proto, v), blobs
        if kind != 'object':
            ops = {o.name for o, a, p in pickletools.genops(data)}
            if 'BUILD' in ops:
                return (kind + ':pickle-carries-state', sid, proto), blobs
        if kind in ('iface', 'implements'):
            if y is not x:
                return (kind + ':not-identical', sid, proto, repr(y)), blobs
            if not (y == x) or (y != x) or hash(y) != hash(x):
                return (kind + ':not-equal', sid, proto), blobs
        elif kind in ('provides', 'classprovides'):
            if names(y) != names(x):
                return (kind + ':interfaces-differ', sid, proto, names(y), names(x)), blobs
            if list(i.__name__ for i in y) != list(i.__name__ for i in x):
                return (kind + ':declared-differ', sid, proto), blobs
            if not (y == x) or hash(y) != hash(x):
                if kind == 'provides':
                    return (kind + ':not-equal', sid, proto), blobs
                soft = soft or (kind + ':not-equal', sid, proto)
        else:
            if type(y) is not type(x):
                return ('object:type', sid, proto), blobs
            if names(providedBy(y)) != names(providedBy(x)):
                return ('object:interfaces-differ', sid, proto, names(providedBy(y)),
                        names(providedBy(x))), blobs
            for I in m.IFACES:
                if I.providedBy(y) != I.providedBy(x):
                    return ('object:providedBy-differs', sid, proto, I.__name__), blobs
    return soft, blobs


def dump_all(_):
    """Phase 1 (process A): local round trips; returns blobs + descriptions."""
    viol = []
    out = []
    # legacy declaration shapes keep what was declared (a later declaration adds to it)
    for nm_, want in m.EXPECTED_DECLARED.items():
        got = sorted(i.__name__ for i in implementedBy(getattr(m, nm_)))
        if got != sorted(want):
            viol.append(dict(sig='C13:implements:legacy-declaration-lost:' + nm_,
                             case=dict(sid=('legacy', nm_)),
                             detail=dict(subject=nm_, iterates=got, declared=want)))
    # pickles taken by a dependent *while* declarations were being applied
    if len(m.OBSERVER.results) < 3 or any(r is not True for r in m.OBSERVER.results):
        viol.append(dict(sig='C13:implements:not-identical-while-a-declaration-is-applied',
                         case=dict(sid=('observer',)),
                         detail=dict(round_trips_inside_change_notifications=m.OBSERVER.results)))
    for sid, x in subjects():
        v, blobs = check_local(sid, x)
        if v:
            sig = 'C13:' + v[0] + ':' + ':'.join(sid[1:])
            if v[0] == 'classprovides:not-equal':
                sig = 'C13:classprovides:not-equal'     # one call site, any class
            viol.append(dict(sig=sig,
                             case=dict(sid=sid), detail=dict(violation=v)))
        out.append((sid, blobs, describe(sid, x)))
    return dict(viol=viol, out=out)


def load_all(items):
    """Phase 2 (another process): unpickle and describe."""
    viol = []
    n = 0
    for sid, blobs, desc in items:
        sid = tuple(sid)
        for proto, data in blobs.items():
            n += 1
            try:
                y = pickle.loads(data)
            except Exception as e:
                viol.append(dict(sig='C13:%s:foreign-process-exception:%s' % (sid[0], ':'.join(sid[1:])),
                                 case=dict(sid=sid, foreign=True),
                                 detail=dict(sid=sid, proto=proto, error=repr(e))))
                break
            d = describe(sid, y)
            if d != desc:
                viol.append(dict(sig='C13:%s:foreign-process-differs:%s' % (sid[0], ':'.join(sid[1:])),
                                 case=dict(sid=sid, foreign=True),
                                 detail=dict(sid=sid, proto=proto, got=d, expected=desc)))
                break
    return dict(viol=viol, n=n)


def replay(case):
    sid = tuple(case['sid'])
    if sid[0] == 'legacy':
        got = sorted(i.__name__ for i in implementedBy(getattr(m, sid[1])))
        return dict(iterates=got) if got != sorted(m.EXPECTED_DECLARED[sid[1]]) else None
    if sid == ('observer',):
        r = m.OBSERVER.results
        return dict(results=r) if (len(r) < 3 or any(x is not True for x in r)) else None
    for s, x in subjects():
        if s == sid:
            v, blobs = check_local(s, x)
            if v:
                return dict(violation=v)
            if case.get('foreign'):
                # same-process stand-in for the cross-process comparison
                r = load_all([(s, blobs, describe(s, x))])
                if r['viol']:
                    return dict(violation=r['viol'][0]['detail'])
            return None
    return dict(error='unknown subject %r' % (sid,))


def run(ctx):
    from ..runner import finish
    from ..pool import Pool
    dumped = {}
    for impl in ('c', 'py'):
        r = ctx.pool(impl).call('c13', 'dump_all', None)
        for v in r['viol']:
            v['impl'] = impl
        ctx.violations(r['viol'])
        dumped[impl] = r['out']
        nblobs = sum(len(b) for _, b, _ in r['out'])
        ctx.add(evaluations=nblobs, states=len(r['out']))
        ctx.info['%s/subjects' % impl] = len(r['out'])
    # fresh processes: same implementation, other implementation, other hash seed
    for src in ('c', 'py'):
        for dst, seed in ((src, '0'), ('py' if src == 'c' else 'c', '0'), (src, '4242')):
            p = Pool(ctx.stage, dst, n=1, hashseed=seed)
            try:
                r = p.call('c13', 'load_all', dumped[src])
            finally:
                p.close()
            for v in r['viol']:
                v['impl'] = dst
                v['detail']['pickled_by'] = src
            ctx.violations(r['viol'])
            ctx.add(evaluations=r['n'])
            ctx.info['pickled_by_%s/unpickled_by_%s_seed%s' % (src, dst, seed)] = r['n']
    ctx.count['transitions'] = ctx.count['evaluations']
    ctx.count['distinct_nontrivial'] = ctx.count['states'] // 2
    sids = [s for s, _, _ in dumped['c']]
    ctx.sample(dict(subject=sids[len(sids) // 2], protocols=PROTOS))
    ctx.sample(dict(subject=sids[-1]))
    ctx.assumptions += ['declaration shapes are those of fixtures/zi_fix13.py: 12 classes (plain, implementer, inherited, only via decorator and via function, first, class-provided, redundant, subclass of an only class) x 7 instance shapes x protocols 0-5']
    return finish(
        ctx, 'model_checking',
        'every subject (interface, implementedBy(cls), cls.__provides__, obj.__provides__, obj) of every class shape x instance shape is pickled with every protocol and unpickled in the same process, a fresh process, a process with another hash seed and a process running the other implementation',
        'full product of the fixture shapes and protocols; states = subjects, evaluations = round trips')
