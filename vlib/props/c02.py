"""C02 — extends / isOrExtends = reachability over the *current* bases, after
any rebasing.  (Also run with C03's oracle by c03.py.)

E1: BFS over __bases__ reassignments on a mixed specification graph
(interfaces, two class declarations, an instance declaration, a plain
Declaration). Oracle: graph reachability computed from the current __bases__,
and a twin graph built directly in the final shape.
"""
import gc
import hashlib
import itertools

from zope.interface import (Interface, implementedBy, providedBy,
                            directlyProvides, classImplements,
                            classImplementsOnly, Declaration)
from zope.interface.interface import InterfaceClass
from .common import wmod, newworld

N = ['I0', 'I1', 'I2', 'I3']
SPECS = N + ['sA', 'sB', 'pb', 'D']


class World:
    def __init__(self):
        newworld()
        I = {}
        for n in N:
            I[n] = InterfaceClass(n, (Interface,), {'__module__': wmod()})
        self.A = A = type('A', (), {'__module__': wmod()})
        self.B = B = type('B', (A,), {'__module__': wmod()})
        classImplements(A, I['I1'])
        classImplements(B, I['I2'])
        self.b = b = B()
        directlyProvides(b, I['I3'])
        self.specs = dict(I)
        self.specs['sA'] = implementedBy(A)
        self.specs['sB'] = implementedBy(B)
        self.specs['pb'] = b.__provides__
        self.specs['D'] = Declaration(I['I1'], I['I3'])
        self.observers = []
        self.max_observers = 1
        self.refresh()

    def refresh(self):
        # declaration calls may replace the instance's Provides object
        self.specs['pb'] = self.b.__provides__
        self.names = {id(s): n for n, s in self.specs.items()}
        self.names[id(Interface)] = 'R'
        self.names[id(implementedBy(object))] = 'sobject'

    def name(self, s):
        return self.names.get(id(s), '?' + getattr(s, '__name__', type(s).__name__))


class Rebaser:
    """A dependent of one specification (``subscribe()`` is the documented way
    to be told about changes) that answers its first notification by
    re-basing another specification: a ``__bases__`` assignment nested inside
    another one."""

    def __init__(self, w, watched, target, bases):
        self.w, self.watched, self.target, self.bases = w, watched, target, bases
        self.armed = True
        self.fired_inside = None

    def changed(self, originally_changed):
        if not self.armed:
            return
        self.armed = False
        sp = self.w.specs
        node = sp[self.target]
        new = tuple(sp[b] for b in self.bases) or (Interface,)
        for b in new:
            if any(x is node for x in reach(b)):
                return          # would be a cycle in the state reached by now
        self.fired_inside = self.watched
        node.__bases__ = new


def reach(s, acc=None):
    acc = acc if acc is not None else []
    if all(s is not x for x in acc):
        acc.append(s)
        for b in s.__bases__:
            reach(b, acc)
    return acc


def all_ops(cfg):
    maxb = cfg.get('maxb', 2)
    out = []
    for n in N:
        others = [m for m in N if m != n]
        for k in range(0, maxb + 1):
            for bs in itertools.permutations(others, k):
                out.append(('rebase', n, bs))
    for k in range(0, maxb + 1):
        for bs in itertools.permutations(N, k):
            out.append(('rebase', 'D', bs))
    if cfg.get('decl_ops', True):
        for i in N:
            out += [('ci', 'A', i), ('cio', 'B', i), ('dp', i)]
        out += [('cio', 'B'), ('dp',)]
        # a query through a super proxy: fills the per-class cache of super
        # specifications, which a later change has to drop again
        out.append(('SQ',))
    if cfg.get('observers'):
        # obs: subscribe a dependent to n that re-bases m from inside its first
        # notification
        for n in N:
            for m in N:
                for k in range(0, 2):
                    for bs in itertools.permutations([x for x in N if x != m], k):
                        out.append(('obs', n, m, bs))
    return out


def apply(w, op):
    """Returns False if the operation is not enabled (would create a cycle)."""
    t = op[0]
    sp = w.specs
    if t == 'rebase':
        n, bs = op[1], op[2]
        new = tuple(sp[b] for b in bs)
        if n in N and not new:
            new = (Interface,)
        node = sp[n]
        for b in new:
            if any(x is node for x in reach(b)):
                return False
        node.__bases__ = new
    elif t == 'ci':
        classImplements(w.A, sp[op[2]])
    elif t == 'cio':
        classImplementsOnly(w.B, *[sp[x] for x in op[2:]])
    elif t == 'dp':
        directlyProvides(w.b, *[sp[x] for x in op[1:]])
        w.refresh()
    elif t == 'obs':
        if len(w.observers) >= w.max_observers:
            return False
        o = Rebaser(w, op[1], op[2], op[3])
        w.observers.append(o)
        sp[op[1]].subscribe(o)
    elif t == 'SQ':
        providedBy(super(w.B, w.b))
        implementedBy(super(w.B, w.b))
    return True


def check_c02(w):
    sp = w.specs
    allspecs = list(sp.values()) + [Interface]
    for name, s in sp.items():
        r = reach(s)
        exp = {id(x) for x in r} | {id(Interface)}
        for t in allspecs:
            e = id(t) in exp
            if bool(s.isOrExtends(t)) != e:
                return ('isOrExtends', name, w.name(t), e)
            es = e and (t is not s)
            if bool(s.extends(t, strict=True) if t is s else s.extends(t)) != es:
                return ('extends', name, w.name(t), es)
            if t is s and not s.extends(t, strict=False):
                return ('extends(strict=False)-self', name)
        sro = s.__sro__
        if {id(x) for x in sro} != exp or len(sro) != len(exp):
            return ('sro-set', name, [w.name(x) for x in sro], sorted(w.name(x) for x in r))
        if sro[0] is not s or sro[-1] is not Interface:
            return ('sro-ends', name, [w.name(x) for x in sro])
        iro = tuple(x for x in sro if isinstance(x, InterfaceClass))
        if tuple(s.__iro__) != iro:
            return ('iro', name)
    pb = providedBy(w.b)
    r = {id(x) for x in reach(pb)} | {id(Interface)}
    for n in N:
        if bool(sp[n].providedBy(w.b)) != (id(sp[n]) in r):
            return ('I.providedBy(instance)', n, id(sp[n]) in r)
    return None


def check_c03(w):
    from . import c03
    memo = {}
    is_iface = lambda x: x == 'R' or str(x).startswith('I')
    for name, s in w.specs.items():
        try:
            v = c03.check_spec(s, w.names, is_iface, memo)
        except KeyError as e:
            return ('unknown-spec-in-graph', name, repr(e))
        if v:
            return v
    return None


def fresh_equiv(w):
    """A graph built directly in the final shape answers the same."""
    f = World()
    shape = {n: [w.name(b) for b in s.__bases__] for n, s in w.specs.items()}
    extra = {'R': Interface, 'sobject': implementedBy(object)}
    todo = list(SPECS)
    done = set(extra)
    guard = 0
    while todo:
        guard += 1
        if guard > 50:
            return ('fresh-twin-could-not-be-built', shape)
        for n in list(todo):
            if all(x in done for x in shape[n]):
                new = tuple(extra[x] if x in extra else f.specs[x] for x in shape[n])
                f.specs[n].__bases__ = new
                done.add(n)
                todo.remove(n)
    f.names = {id(s): n for n, s in f.specs.items()}
    f.names[id(Interface)] = 'R'
    f.names[id(implementedBy(object))] = 'sobject'
    for name in SPECS:
        a = [w.name(x) for x in w.specs[name].__sro__]
        b = [f.name(x) for x in f.specs[name].__sro__]
        if a != b:
            return ('fresh-graph-differs', name, a, b)
        a = [w.name(x) for x in w.specs[name].__iro__]
        b = [f.name(x) for x in f.specs[name].__iro__]
        if a != b:
            return ('fresh-graph-differs-iro', name, a, b)
        for t in SPECS:
            if bool(w.specs[name].isOrExtends(w.specs[t])) != bool(f.specs[name].isOrExtends(f.specs[t])):
                return ('fresh-graph-differs-isOrExtends', name, t)
    return None


def canon(w):
    out = []
    for name, s in w.specs.items():
        deps = ()
        d = getattr(s, '_dependents', None)
        if d:
            deps = tuple(sorted((w.name(k) if id(k) in w.names else type(k).__name__, c)
                                for k, c in d.items()))
        out.append((name, tuple(w.name(b) for b in s.__bases__),
                    tuple(w.name(x) for x in s.__sro__), deps,
                    bool(getattr(s, '_super_cache', None))))
    for o in w.observers:
        if o.armed:
            out.append(('obs', o.watched, o.target, o.bases))
    return tuple(out)


PREBUILT = [('rebase', 'I1', ('I0',)), ('rebase', 'I2', ('I1', 'I0')), ('rebase', 'I3', ('I1',))]


def any_without_c3(w):
    """Does some specification of the graph *as it is now* lack a C3 order?"""
    from . import c03
    from .. import gen
    for name, s in w.specs.items():
        graph = c03._graph(s, w.names)
        if gen.c3_or_none(name, graph, {}) is None:
            return name
    return None


def run_hist(cfg, hist):
    from zope.interface import ro as _ro
    w = World()
    w.max_observers = cfg.get('max_observers', 1)
    if cfg.get('prebuilt'):
        # start from a graph that already has a chain, a redundant edge
        # (I2 lists I0 directly and through I1) and a second child of I1
        for op in PREBUILT:
            apply(w, op)
    strict = cfg.get('oracle') == 'c03-strict'
    for op in hist:
        if strict:
            # ZOPE_INTERFACE_STRICT_IRO=1: an operation is refused exactly when it
            # leaves some specification without a C3 order; a refused operation
            # ends the history (what state it leaves behind is not specified)
            try:
                ok = apply(w, tuple(op))
            except _ro.InconsistentResolutionOrderError:
                w.refresh()
                if any_without_c3(w):
                    return w, 'disabled'
                return w, ('strict-env-refused-an-operation-that-leaves-every-order-consistent', op)
            if not ok:
                return w, 'disabled'
            w.refresh() if op[0] == 'dp' else None
            bad = any_without_c3(w)
            if bad:
                return w, ('strict-env-accepted-an-operation-that-leaves-a-specification-without-C3', op, bad)
            continue
        if not apply(w, tuple(op)):
            return w, 'disabled'
    if cfg.get('oracle') in ('c03', 'c03-strict'):
        return w, check_c03(w)
    return w, (check_c02(w) or fresh_equiv(w))


def expand(arg):
    cfg, hists = arg
    ops = all_ops(cfg)
    pfx = 'C03:' if cfg.get('oracle') in ('c03', 'c03-strict') else 'C02:'
    viol = []
    new = []
    local = set()
    n = 0
    for h in hists:
        for op in ops:
            hh = tuple(h) + (op,)
            w, v = run_hist(cfg, hh)
            if v == 'disabled':
                continue
            n += 1
            if v:
                viol.append(dict(sig=pfx + v[0], case=dict(kind='rebase', cfg=cfg, hist=hh),
                                 detail=dict(history=hh, violation=v)))
                continue
            key = hashlib.blake2b(repr(canon(w)).encode(), digest_size=12).digest()
            if key not in local:
                local.add(key)
                new.append((key, hh))
        if n % 1000 < 120:
            gc.collect()
    gc.collect()
    return dict(trans=n, viol=viol, new=new)


def _tuplify(x):
    return tuple(_tuplify(y) for y in x) if isinstance(x, (list, tuple)) else x


def replay(case):
    w, v = run_hist(case['cfg'], _tuplify(case['hist']))
    if v and v != 'disabled':
        return dict(violation=v, history=case['hist'])
    return None


def run(ctx):
    from ..e1 import bfs
    from ..runner import finish
    depth = int(ctx.opts.get('depth', 3 if ctx.tier == 'quick' else 4))
    for impl in ('c', 'py'):
        cfg = dict(oracle='c02', maxb=2 if ctx.tier == 'quick' else 3)
        if ctx.tier != 'quick':
            # thorough: depth 3 with base lists up to 3, then depth 4 with <= 2
            r0 = bfs(ctx, impl, 'expand', cfg, 3, label='maxb3')
            ctx.add(states=r0['states'], transitions=r0['transitions'])
            ctx.info['%s/maxb3' % impl] = dict(depth=r0['depth_done'], states=r0['states'],
                                               transitions=r0['transitions'], fixpoint=r0['fixpoint'])
            cfg = dict(oracle='c02', maxb=2)
        r = bfs(ctx, impl, 'expand', cfg, depth, label='maxb2')
        ctx.add(states=r['states'], transitions=r['transitions'])
        ctx.info['%s/maxb2' % impl] = dict(depth=r['depth_done'], states=r['states'],
                                           transitions=r['transitions'], fixpoint=r['fixpoint'],
                                           new_states_per_depth=r['per_level'])
        if r['frontier']:
            ctx.sample(dict(impl=impl, history=r['frontier'][len(r['frontier']) // 2]))
        if ctx.unknown_viol():
            break
        # not from the flat initial graph: chain + redundant edge already there
        cfg = dict(oracle='c02', maxb=1 if ctx.tier == 'quick' else 2, decl_ops=ctx.tier != 'quick', prebuilt=True)
        r = bfs(ctx, impl, 'expand', cfg, 4, label='prebuilt')
        ctx.add(states=r['states'], transitions=r['transitions'])
        ctx.info['%s/prebuilt' % impl] = dict(depth=r['depth_done'], states=r['states'],
                                              transitions=r['transitions'], fixpoint=r['fixpoint'],
                                              initial_graph=PREBUILT)
        if ctx.unknown_viol():
            break
        # nested assignments: a dependent of one specification re-bases another
        # one from inside the change notification
        cfg = dict(oracle='c02', maxb=1, decl_ops=False, observers=True,
                   max_observers=1 if ctx.tier == 'quick' else 2)
        r = bfs(ctx, impl, 'expand', cfg, 3, label='nested')
        ctx.add(states=r['states'], transitions=r['transitions'])
        ctx.info['%s/nested' % impl] = dict(depth=r['depth_done'], states=r['states'],
                                            transitions=r['transitions'], fixpoint=r['fixpoint'])
        if ctx.unknown_viol():
            break
    ctx.count['traces_validated_against_impl'] = ctx.count['transitions']
    ctx.assumptions += ['4 interfaces + implementedBy(A), implementedBy(B(A)), an instance Provides, a plain Declaration; base lists <= 2 (thorough 3); cycles excluded (unsupported by the library)',
                        'nested layer: base lists <= 1, at most one (thorough: two) one-shot dependent(s) that re-base another interface from inside a change notification']
    return finish(
        ctx, 'model_checking',
        'every sequence of __bases__ reassignments (and class/instance declaration calls that re-base declarations) up to the depth is executed on a fresh real specification graph; in every state isOrExtends/extends/__sro__/__iro__/providedBy of every specification is compared with reachability over the current __bases__ and with a twin graph built directly in the final shape',
        'BFS over histories, de-duplicated on (bases, sro, dependents) of every specification')
