"""C12 — interfaces have a total, hash-consistent, process-independent order.

E2: all ordered pairs x six comparison operators + hash, all triples
(transitivity), sorted() of every 4-element mixed sub-collection in many
input permutations, in processes with several hash seeds x both
implementations; results are compared with (name, module) tuple order and
with each other across processes.
"""
import hashlib
import itertools
import operator
import sys

from zope.interface import Interface, implementedBy
from zope.interface.interface import InterfaceClass

NAMES = ['', 'a', 'ab', 'b', '\xe9', 'A', '\xe8', 'a\u4e2d', 'a\u4e2e', '\u01ff', '\u0200']      # non-ASCII names that differ in their last UTF-8 byte only; wide characters whose byte order is not their code-point order
MODS = ['', 'm', 'ma', 'n']
OPS = {'lt': operator.lt, 'le': operator.le, 'gt': operator.gt, 'ge': operator.ge}


class Proxy:
    """An opaque foreign object without __name__ that answers comparisons
    itself: the interface has to step back (NotImplemented) for == and !=."""

    def __eq__(self, other):
        return True

    def __ne__(self, other):
        return False

    __hash__ = None


class Wildcard:
    """A foreign object whose == and != both say True (a query-building or
    "matches anything" object): the interface leaves both to it."""

    def __eq__(self, other):
        return True

    def __ne__(self, other):
        return True

    __hash__ = None


class Named:
    def __init__(s, n, m):
        s.__name__ = n
        s.__module__ = m


def fresh(s):
    """An equal string that is a different, non-interned object (CPython
    shares the empty string and one-character strings, nothing longer that is
    built at run time)."""
    return ''.join([c for c in s])


def universe():
    # every interface gets its own string objects for name and module
    IF = [InterfaceClass(fresh(n), (Interface,), {}, __module__=fresh(m))
          for n in NAMES for m in MODS]
    twin = InterfaceClass(fresh('ab'), (Interface,), {}, __module__=fresh('ma'))
    twin2 = InterfaceClass('\xe9', (Interface,), {}, __module__=fresh('ma'))
    # ... and a twin that *shares* the very string objects of the interface it
    # equals (what two executions of one class statement in one module give)
    orig = IF[NAMES.index('b') * len(MODS) + MODS.index('n')]
    twin3 = InterfaceClass(orig.__name__, (Interface,), {}, __module__=orig.__module__)
    # interfaces with interface methods live in generated classes: one level,
    # and a second level derived from the first (both take part like any other)
    cm1 = InterfaceClass(fresh('ab'), (Interface,), {'__interface_methods__': {'helper': lambda self: 1}},
                         __module__=fresh('n'))
    cm2 = type(cm1)(fresh('b'), (cm1,), {'__interface_methods__': {'helper2': lambda self: 2}},
                         __module__=fresh('ma'))

    def mkcls(n, mod='cm'):
        return type(n, (), {'__module__': mod})
    K = [mkcls('a'), mkcls('zz'), mkcls('a'), mkcls('b', 'm')]
    SPECS = [implementedBy(k) for k in K]
    labels = {}
    for i, x in enumerate(IF):
        labels[id(x)] = 'if%d' % i
    labels[id(twin)] = 'twin_a_m'
    labels[id(twin2)] = 'twin_e_ma'
    labels[id(twin3)] = 'twin_b_n_shared_strings'
    labels[id(cm1)] = 'custom_methods_ab_n'
    labels[id(cm2)] = 'custom_methods_derived_b_ma'
    for i, s in enumerate(SPECS):
        labels[id(s)] = 'spec%d' % i
    foreign = [3, 'a', object(), Named, len, sys, Named('a', 'm'), Named('zz', 'zz'), (), 1.5,
               Proxy(), Wildcard()]
    return IF, [twin, twin2, twin3, cm1, cm2], SPECS, foreign, labels, K


def key(x):
    return (x.__name__, x.__module__)


def odd_names():
    """A name containing blanks and no documentation string is taken as the
    documentation and the interface ends up with ``__name__`` None: still,
    interfaces with equal (name, module) pairs are equal and hash equal."""
    mk = lambda text, mod: InterfaceClass(fresh(text), __module__=fresh(mod))
    a, b, c = mk('has a blank', 'pk.m'), mk('has two blanks', 'pk.m'), mk('has a blank', 'pk.n')
    for x, y in itertools.product((a, b, c), repeat=2):
        same = key(x) == key(y)
        if (x == y) != same or (x != y) == same:
            return ('eq', key(x), key(y), x == y)
        if same and hash(x) != hash(y):
            return ('hash-of-equal-differs', key(x), key(y))
    if len({a, b}) != 1 or {a: 1}.get(b) != 1:
        return ('hash-of-equal-differs', key(a), key(b), 'set/dict lookup')
    # against an ordinarily named interface: simply unequal
    d = InterfaceClass(fresh('IDoc'), (Interface,), {'__doc__': 'documented'}, __module__=fresh('pk.m'))
    try:
        r = (a == d, a != d, d == a, d != a)
    except TypeError:
        return ('eq-raises-between-None-named-and-named-interface', key(a), key(d))
    if r != (False, True, False, True):
        return ('eq', key(a), key(d), r)
    return None


def key_is_final():
    """The (name, module) key of a class specification is final from the moment
    the specification becomes visible to other objects: a base that keeps its
    dependents in key order (it learns of them through subscribe()) must see
    the key the specification has afterwards."""
    from zope.interface import implementer, classImplements
    seen = []

    class Recording(InterfaceClass):
        def subscribe(self, dependent):
            InterfaceClass.subscribe(self, dependent)
            if hasattr(dependent, 'declared'):
                seen.append((dependent, (dependent.__name__, dependent.__module__)))
    IRec = Recording(fresh('IRec'), __module__=fresh('pk.r'))

    @implementer(IRec)
    def factory():
        pass

    @implementer(IRec)
    class ByDecorator:
        pass

    class OldStyle:
        __implemented__ = IRec
    implementedBy(OldStyle)

    class ByCall:
        pass
    classImplements(ByCall, IRec)
    if len(seen) < 4:
        return ('key-is-final:subscribe-not-seen', len(seen))
    for spec, k in seen:
        if k != (spec.__name__, spec.__module__):
            return ('key-changes-after-the-specification-became-visible', k,
                    (spec.__name__, spec.__module__))
    return None


def laws(arg):
    try:
        return _laws(arg)
    except TypeError as e:
        # a comparison between two specifications refused to answer (both sides
        # returned NotImplemented): the interpreter raises, not the library
        return dict(viol=[dict(sig='C12:comparison-raises', case=dict(tier=arg['tier'], kind='comparison-raises'),
                               detail=dict(kind='comparison-raises', error=repr(e)))],
                    n=0, fp='(aborted)', order=[], nsort=0, pairs=0)


def _laws(arg):
    tier = arg['tier']
    IF, twins, SPECS, FOREIGN, labels, keep = universe()
    U = IF + twins + SPECS
    viol = []

    def bad(kind, *detail):
        viol.append(dict(sig='C12:' + kind, case=dict(tier=tier, kind=kind),
                         detail=dict(kind=kind, detail=detail)))
    n = 0
    matrix = []
    for a, b in itertools.product(U, repeat=2):
        ka, kb = key(a), key(b)
        both_if = isinstance(a, InterfaceClass) and isinstance(b, InterfaceClass)
        exp_eq = (ka == kb) if both_if else (a is b)
        n += 1
        eq, ne = (a == b), (a != b)
        if eq != exp_eq:
            bad('eq', ka, kb, eq)
        if ne != (not exp_eq):
            bad('ne-not-negation-of-eq', ka, kb, ne)
        if exp_eq and hash(a) != hash(b):
            bad('hash-of-equal-differs', ka, kb)
        if both_if and hash(a) != hash(ka):
            pass          # the hash value itself is not specified
        row = [eq, ne]
        if a is b or ka != kb:
            for nm, f in OPS.items():
                r = f(a, b)
                row.append(r)
                if r != f(ka, kb):
                    bad(nm, ka, kb, r)
        else:
            # equal keys, distinct objects: interfaces are equal (so <= and >=
            # hold, < and > do not); class specs with equal names are neither
            # < nor ==, which the property leaves open beyond determinism
            lt, le, gt, ge = a < b, a <= b, a > b, a >= b
            row += [lt, le, gt, ge]
            if lt or gt or not le or not ge:
                # ordering follows the key for class specifications too (only
                # their *equality* is by identity): anything else, e.g. an
                # address, makes sorting depend on the process
                bad('order-of-equal-interfaces' if both_if else 'order-of-equal-keys',
                    ka, kb, (lt, le, gt, ge))
        if (a < b) != (b > a) or (a <= b) != (b >= a):
            bad('reflected', ka, kb)
        matrix.append(row)
    v = odd_names() or key_is_final()
    if v:
        bad(*v)
    for a in U:
        n += 1
        if not (a < None) or (a > None) or not (a <= None) or (a >= None):
            bad('interface-sorts-before-None', key(a))
        if a == None or not (a != None):       # noqa: E711
            bad('eq-None', key(a))
        if not (None > a) or (None < a) or not (None >= a) or (None <= a):
            bad('None-reflected', key(a))
        for f in FOREIGN:
            n += 1
            try:
                r = (a == f, a != f, f == a, f != a)
            except Exception as e:
                bad('foreign-eq-raises', key(a), repr(f)[:30], type(e).__name__)
                continue
            if isinstance(f, Wildcard):
                if r != (True, True, True, True):
                    bad('foreign-eq-not-delegated', key(a), r)
                matrix.append(list(r))
                continue
            if r[0] == r[1] or r[2] == r[3] or r[0] != r[2]:
                bad('foreign-eq-ne', key(a), repr(f)[:30], r)
            if isinstance(f, Proxy):
                if r != (True, False, True, False):
                    bad('foreign-eq-not-delegated', key(a), r)
            elif not (hasattr(f, '__name__') and hasattr(f, '__module__')) and r[0]:
                bad('foreign-eq-true', key(a), repr(f)[:30])
            matrix.append(list(r))
    D = [x for x in U if x not in twins and x is not SPECS[2]]
    if tier == 'quick':
        T = D[::2] + SPECS[:2]
    else:
        T = D
    for a, b, c in itertools.product(T, repeat=3):
        n += 1
        if a < b and b < c and not a < c:
            bad('transitivity', key(a), key(b), key(c))
        if a <= b and b <= c and not a <= c:
            bad('transitivity-le', key(a), key(b), key(c))
    for a, b in itertools.product(D, repeat=2):
        if a is not b:
            if (a < b) + (b < a) != 1:
                bad('totality', key(a), key(b))
    # sorting: every 4-subset of a mixed collection (incl. None), many permutations
    M = D + [None]
    order = {id(x): i for i, x in enumerate(
        sorted(D, key=key))}
    order[id(None)] = len(D)
    pool = M if tier != 'quick' else M[::2] + SPECS[:2] + [None]
    seen = set()
    pool = [x for x in pool if not (id(x) in seen or seen.add(id(x)))]
    nsort = 0
    for sub in itertools.combinations(pool, 4):
        exp = sorted(sub, key=lambda x: order[id(x)])
        perms = itertools.permutations(sub) if tier != 'quick' else \
            [sub, sub[::-1], sub[1:] + sub[:1], (sub[2], sub[0], sub[3], sub[1])]
        for p in perms:
            nsort += 1
            got = sorted(p, key=lambda x: x) if None not in p else _sort_with_none(p)
            if [id(x) for x in got] != [id(x) for x in exp]:
                bad('sorted', [labels.get(id(x), 'None') for x in p],
                    [labels.get(id(x), 'None') for x in got])
                break
    full = [labels[id(x)] for x in sorted(D)]
    # several shuffles of the whole collection
    for k in range(1, 12):
        L = D[k:] + D[:k]
        if k % 2:
            L.reverse()
        if [labels[id(x)] for x in sorted(L)] != full:
            bad('sorted-whole-collection', k)
    fp = hashlib.sha256(repr((matrix, full)).encode()).hexdigest()
    return dict(viol=viol, n=n + nsort, fp=fp, order=full, nsort=nsort,
                pairs=len(U) ** 2)


def _sort_with_none(p):
    # list.sort only uses <; None is on the right-hand side or the left
    return sorted(p, key=_K)


class _K:
    """Sort key that delegates to the operands' own < (so that None takes
    part through the reflected comparison, as list.sort would do)."""
    __slots__ = ('x',)

    def __init__(self, x):
        self.x = x

    def __lt__(self, other):
        return self.x < other.x


def replay(case):
    r = laws(dict(tier=case.get('tier', 'quick')))
    if case.get('kind') == 'cross-process-differs':
        if r['fp'] != case['expected_fp']:
            return dict(violation='comparison matrix / sort order differs from the reference process',
                        order=r['order'])
        return None
    vs = [v for v in r['viol'] if v['case']['kind'] in (case['kind'], 'comparison-raises')]
    return dict(violation=vs[0]['detail']) if vs else None


SEEDS = ['0', '1', '4242', '987654321']


def run(ctx):
    from ..runner import finish
    from ..pool import Pool
    ref = None
    outcomes = set()
    for impl in ('c', 'py'):
        for seed in SEEDS:
            p = Pool(ctx.stage, impl, n=1, hashseed=seed)
            try:
                r = p.call('c12', 'laws', dict(tier=ctx.tier))
            finally:
                p.close()
            for v in r['viol']:
                v['impl'] = impl
                v['hashseed'] = seed
            ctx.violations(r['viol'])
            ctx.add(evaluations=r['n'])
            ctx.info['%s/seed%s' % (impl, seed)] = dict(checks=r['n'], sorts=r['nsort'], fingerprint=r['fp'][:16])
            outcomes.add(r['fp'])
            if ref is None:
                ref = r
                ctx.sample(dict(sorted_order_of_the_universe=r['order']))
            elif r['fp'] != ref['fp']:
                ctx.violation(dict(
                    sig='C12:cross-process-differs', impl=impl, hashseed=seed,
                    case=dict(tier=ctx.tier, kind='cross-process-differs', expected_fp=ref['fp']),
                    detail=dict(reference='c/seed0', this='%s/seed%s' % (impl, seed),
                                reference_order=ref['order'], this_order=r['order'])))
    ctx.count['states'] = ref['pairs']
    ctx.count['transitions'] = ctx.count['evaluations']
    ctx.count['distinct_nontrivial'] = ref['pairs']
    ctx.info['distinct_fingerprints_across_processes'] = len(outcomes)
    ctx.assumptions += ['hash seeds %s stand for "all hash seeds"' % ', '.join(SEEDS),
                        'names %r x modules %r, two equal twins, four class specifications (two with the same name), None and ten foreign objects' % (NAMES, MODS)]
    return finish(
        ctx, 'model_checking',
        'all ordered pairs of the operand universe under ==, !=, <, <=, >, >= and hash, all triples for transitivity, sorted() over 4-element sub-collections in many permutations, against (name, module) tuple order; repeated in 8 processes (4 hash seeds x 2 implementations) whose complete result matrices must be identical',
        'full product over the operand universe; states = ordered operand pairs')
