"""C09 — registration bookkeeping reflects exactly the net effect of the history.

E1: BFS over register / register None / unregister (identical, equal-not-
identical, other, no value) / subscribe / unsubscribe / rebuild histories;
oracle: dict + list model; differential: replay of the two listings into an
empty registry, and rebuild(), answer every unambiguous lookup identically.
"""
import gc
import hashlib

from zope.interface import Interface
from zope.interface.interface import InterfaceClass
from zope.interface.adapter import AdapterRegistry, VerifyingAdapterRegistry

from .regmodel import registry_digest, lookup_winners
from .c07 import V, FalsyV
from .common import wmod, newworld

FLAVOURS = {'adapter': AdapterRegistry, 'verifying': VerifyingAdapterRegistry}


class DV:
    """A subscriber nobody but the registry refers to; when it goes away it
    subscribes another value under the key it was subscribed under (a
    finaliser that re-enters the registry in the middle of unsubscribe())."""

    def __init__(self, W, S, key, rq, prov):
        self.W, self.S, self.key, self.rq, self.prov = W, S, key, rq, prov

    def __repr__(self):
        return 'DV'

    def __eq__(self, other):
        return isinstance(other, DV)

    __hash__ = None

    def __del__(self):
        try:
            if self.W.get('reg') is None or self.W.get('closing'):
                return
            self.W['reg'].subscribe(self.rq, self.prov, self.W['a2'])
            self.S.append((self.key, self.W['a2']))
        except Exception as e:          # noqa: BLE001
            self.W.setdefault('finaliser-errors', []).append(repr(e))


def vid(W, v):
    return id(W['dvtoken']) if isinstance(v, DV) else id(v)


def mk(n, *b):
    return InterfaceClass(n, b or (Interface,), {'__module__': wmod()})


def build(flavour):
    newworld()
    W = {'R0': mk('R0'), 'P0': mk('P0')}
    W['R1'] = mk('R1', W['R0'])
    W['P1'] = mk('P1', W['P0'])
    W['P2'] = mk('P2', W['P0'])
    W[None] = None
    W['a'] = V('a', 1)
    W['a2'] = V('a', 2)
    W['b'] = FalsyV('b', 3)
    W['reg'] = FLAVOURS[flavour]()
    W['dvtoken'] = DV(W, [], None, None, None)       # what the model lists in place of a DV
    W['dvtoken'].W = {}
    return W


KEYS = [((), 'P0', ''), (('R0',), 'P0', ''), (('R0',), 'P1', ''), (('R1',), 'P2', ''),
        (('R0',), 'P0', 'n'), ((None,), 'P1', ''), (('R0', 'R1'), 'P0', ''),
        (('R1',), 'P0', ''), (('R0', 'R1'), 'P1', 'n'), (('R0', 'R1'), 'P1', ''),
        (('R1', 'R1'), 'P0', '')]


def all_ops(cfg):
    keys = [KEYS[i] for i in cfg['keyidx']]
    ops = [('rebuild',)]
    if cfg.get('only') == 'subscribers':
        for k in keys:
            for v in ('a', 'a2', 'b', 'dv'):
                ops.append(('sub', k, v))
            for v in ('a', 'b', None):
                ops.append(('unsub', k, v))
        return ops
    for k in keys:
        for v in ('a', 'a2', 'b'):
            ops.append(('reg', k, v))
        ops.append(('reg', k, None))
        for v in ('a', 'a2', 'b', None):
            ops.append(('unreg', k, v))
        if k[2] == '':
            for v in ('a', 'a2', 'b'):
                ops.append(('sub', k, v))
            for v in ('a', None):
                ops.append(('unsub', k, v))
    return ops


def apply(W, M, S, op):
    r = W['reg']
    t = op[0]
    if t == 'rebuild':
        r.rebuild()
        return
    (req, prov, name), v = op[1], op[2]
    key = (tuple(req), prov, name)
    rq = [W[x] for x in req]
    if v == 'dv':
        r.subscribe(rq, W[prov], DV(W, S, key[:2], rq, W[prov]))
        S.append((key[:2], W['dvtoken']))
        return
    val = W[v] if v else None
    if t == 'reg':
        r.register(rq, W[prov], name, val)
        if val is None:
            M.pop(key, None)
        else:
            M[key] = val
    elif t == 'unreg':
        r.unregister(rq, W[prov], name, val)
        if key in M and (val is None or M[key] is val):
            del M[key]
    elif t == 'sub':
        r.subscribe(rq, W[prov], val)
        S.append((key[:2], val))
    elif t == 'unsub':
        # (the model first: a finaliser that runs inside the call adds to it)
        S[:] = [e for e in S if not (e[0] == key[:2] and (val is None or e[1] == val))]
        r.unsubscribe(rq, W[prov], val)


def nm(x):
    return 'None' if x is None else ('I' if x is Interface else x.__name__)


LOOKS = [(), ('R0',), ('R1',), ('R1', 'R1'), ('R0', 'R0')]


def check(W, M, S, flavour):
    r = W['reg']
    for k in KEYS:
        got = r.registered([W[x] for x in k[0]], W[k[1]], k[2])
        if got is not M.get((tuple(k[0]), k[1], k[2])):
            return ('registered', k, repr(got), repr(M.get(k)))
    allr = sorted((tuple(nm(x) for x in rq), nm(p), n, id(v))
                  for rq, p, n, v in r.allRegistrations())
    exp = sorted((tuple('I' if x is None else x for x in k[0]), k[1], k[2], id(v))
                 for k, v in M.items())
    if allr != exp:
        return ('allRegistrations', allr, exp)
    if W.get('finaliser-errors'):
        return ('finaliser-raised', W['finaliser-errors'])
    alls = sorted((tuple(nm(x) for x in rq), nm(p), vid(W, v)) for rq, p, v in r.allSubscriptions())
    exps = sorted((tuple('I' if x is None else x for x in k[0]), k[1], id(v)) for k, v in S)
    if alls != exps:
        return ('allSubscriptions', alls, exps)
    for k in KEYS:
        if k[2]:
            continue
        for v in ('a', 'b'):
            got = r.subscribed([W[x] for x in k[0]], W[k[1]], W[v])
            e = [x for kk, x in S if kk == (tuple(k[0]), k[1]) and x == W[v]]
            if (got is None) != (not e) or (got is not None and got != W[v]):
                return ('subscribed', k, v, repr(got), repr(e))
    # differential: replay the listings into an empty registry; rebuild() a clone
    f = FLAVOURS[flavour]()
    for args in r.allRegistrations():
        f.register(*args)
    for args in r.allSubscriptions():
        f.subscribe(*args)
    g = FLAVOURS[flavour]()
    for args in r.allRegistrations():
        g.register(*args)
    for args in r.allSubscriptions():
        g.subscribe(*args)
    g.rebuild()
    contents = [(0, tuple(W[x] for x in k[0]), W[k[1]], k[2], v) for k, v in M.items()]
    for lreq in LOOKS:
        rq = [W[x] for x in lreq]
        for lp in ('P0', 'P1', 'P2'):
            for n in ('', 'n'):
                a = r.lookup(rq, W[lp], n)
                acc = lookup_winners({0: 0}, contents, rq, W[lp], n)
                if acc is None:
                    if a is not None:
                        return ('lookup-finds-dead-registration', lreq, lp, n, repr(a))
                elif not any(a is x for x in acc):
                    return ('lookup-vs-model', lreq, lp, n, repr(a), repr(acc))
                if acc is None or len(acc) == 1:          # unambiguous
                    for label, other in (('replayed', f), ('rebuilt', g)):
                        b = other.lookup(rq, W[lp], n)
                        if a is not b:
                            return ('%s-registry-lookup-differs' % label, lreq, lp, n, repr(a), repr(b))
            sa = r.subscriptions(rq, W[lp])
            for label, other in (('replayed', f), ('rebuilt', g)):
                sb = other.subscriptions(rq, W[lp])
                if sorted(map(id, sa)) != sorted(map(id, sb)):
                    return ('%s-registry-subscriptions-differ' % label, lreq, lp, repr(sa), repr(sb))
    return None


def run_hist(cfg, hist):
    W = build(cfg['flavour'])
    M = {}
    S = []
    for op in hist:
        apply(W, M, S, op)
    v = check(W, M, S, cfg['flavour'])
    W['closing'] = True
    return W, M, S, v


def expand(arg):
    cfg, hists = arg
    ops = all_ops(cfg)
    viol = []
    new = []
    local = set()
    n = 0
    for h in hists:
        for op in ops:
            hh = tuple(h) + (op,)
            n += 1
            W, M, S, v = run_hist(cfg, hh)
            if v:
                viol.append(dict(sig='C09:' + v[0], case=dict(cfg=cfg, hist=hh),
                                 detail=dict(flavour=cfg['flavour'], history=hh, violation=v)))
                continue
            key = hashlib.blake2b(repr((
                sorted((repr(k), repr(v)) for k, v in M.items()), [(k, repr(v)) for k, v in S],
                registry_digest(W['reg']))).encode(), digest_size=12).digest()
            if key not in local:
                local.add(key)
                new.append((key, hh))
        if n % 2000 < 100:
            gc.collect()
    gc.collect()
    return dict(trans=n, viol=viol, new=new)


def _t(x):
    return tuple(_t(y) for y in x) if isinstance(x, (list, tuple)) else x


def replay(case):
    W, M, S, v = run_hist(case['cfg'], _t(case['hist']))
    return dict(violation=v, history=case['hist']) if v else None


def run(ctx):
    from ..e1 import bfs
    from ..runner import finish
    quick = ctx.tier == 'quick'
    for impl in ('c', 'py'):
        for flavour in FLAVOURS:
            # 'mixed-arity': one key of each arity 0, 1, 2 (the per-arity
            # slots are pruned from the end only);
            # 'two-required': keys that share a two-level path of required
            # interfaces (pruning of emptied branches); 'subscribers': only
            # subscribe / unsubscribe / rebuild, deeper (several subscribers
            # under one key, reference counts of provided interfaces)
            if quick:
                plans = [([0, 1, 2, 3, 4, 5, 6], 2, 'seven-keys', None), ([1, 2, 7], 3, 'three-keys', None),
                         ([6, 9, 8], 3, 'two-required', None), ([1, 2], 4, 'subscribers', 'subscribers'),
                         ([0, 1, 6], 3, 'mixed-arity', None)]
            else:
                plans = [([0, 1, 2, 3, 4, 5, 6, 7, 8], 3, 'nine-keys', None), ([1, 2, 7], 4, 'three-keys', None),
                         ([6, 9, 8, 10], 3, 'two-required', None), ([6, 9, 8], 4, 'two-required-deep', None),
                         ([1, 2, 6], 5, 'subscribers', 'subscribers'), ([0, 1, 6], 4, 'mixed-arity', None)]
            if quick and flavour == 'verifying' and impl == 'py':
                plans = plans[:1] + plans[2:]
            for keyidx, depth, label, only in plans:
                cfg = dict(flavour=flavour, keyidx=keyidx)
                if only:
                    cfg['only'] = only
                r = bfs(ctx, impl, 'expand', cfg, int(ctx.opts.get('depth', depth)),
                        label='%s/%s' % (flavour, label))
                ctx.add(states=r['states'], transitions=r['transitions'])
                ctx.info['%s/%s/%s' % (impl, flavour, label)] = dict(
                    depth=r['depth_done'], states=r['states'], transitions=r['transitions'],
                    fixpoint=r['fixpoint'], alphabet=len(all_ops(cfg)))
                if r['frontier']:
                    ctx.sample(dict(impl=impl, flavour=flavour,
                                    history=r['frontier'][len(r['frontier']) // 2]), limit=4)
                if ctx.unknown_viol():
                    break
            if ctx.unknown_viol():
                break
        if ctx.unknown_viol():
            break
    ctx.count['traces_validated_against_impl'] = ctx.count['transitions']
    return finish(
        ctx, 'model_checking',
        'every history of register / register None / unregister (identical, equal-not-identical, no value) / subscribe / unsubscribe / rebuild up to the depth is replayed on a real registry; registered, allRegistrations, allSubscriptions, subscribed are compared with a dict + list model in every state, every lookup with the brute-force winner over the model, and a registry re-populated from the listings (and its rebuild()) must answer every unambiguous lookup and all subscriptions identically',
        'BFS over histories de-duplicated on (model, nested-container digest)')
