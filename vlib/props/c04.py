"""C04 — adapter lookup returns the most specific applicable registration.

E2: every registry content of bounded size over a key universe (arity 0, 1,
2; None as required; interface, class-declaration and instance-declaration
keys; two names), each element placed in the registry or in one of its base
registries, x every lookup key; brute-force oracle over the registration list.
"""
import gc
import itertools

from zope.interface import Interface, implementedBy, providedBy, classImplements, directlyProvides
from zope.interface.interface import InterfaceClass
from zope.interface.adapter import AdapterRegistry, VerifyingAdapterRegistry

from .regmodel import lookup_winners
from .common import wmod, newworld

FLAVOURS = {'adapter': AdapterRegistry, 'verifying': VerifyingAdapterRegistry}
SENT = object()


class FalsyStr(str):
    """A registered value that is falsy: only None means 'no registration'."""

    def __bool__(self):
        return False


def mk(n, *b):
    return InterfaceClass(n, b or (Interface,), {'__module__': wmod()})


class H:
    """The (immutable) hierarchy; built once per worker task."""

    def __init__(self):
        newworld()
        self.R0 = R0 = mk('R0')
        self.R1 = R1 = mk('R1')
        self.R2 = R2 = mk('R2', R0, R1)
        self.R3 = R3 = mk('R3', R1, R0)
        self.R4 = R4 = mk('R4', R2)
        self.P0 = P0 = mk('P0')
        self.P1 = P1 = mk('P1', P0)
        self.P2 = P2 = mk('P2', P0)
        self.P3 = P3 = mk('P3', P1, P2)
        self.K = K = type('K', (), {})
        classImplements(K, R2)
        self.K2 = K2 = type('K2', (K,), {})
        classImplements(K2, R1)
        self.SK = implementedBy(K)
        self.SK2 = implementedBy(K2)
        self.ob = K2()
        directlyProvides(self.ob, R3)
        self.req = {'None': None, 'R0': R0, 'R1': R1, 'R2': R2, 'SK': self.SK}
        self.look = {'R0': R0, 'R1': R1, 'R2': R2, 'R3': R3, 'R4': R4, 'SK': self.SK,
                     'SK2': self.SK2, 'pK': providedBy(K()), 'pob': providedBy(self.ob)}
        self.P4 = P4 = mk('P4', P1)
        self.prov = {'P0': P0, 'P1': P1, 'P2': P2, 'P3': P3, 'P4': P4}
        self.qprov = {'P0': P0, 'P1': P1, 'P2': P2, 'P3': P3, 'P4': P4}


def key_universe(arities, small=False):
    keys = []
    for ar in arities:
        reqs = ['None', 'R0', 'R1', 'R2', 'SK'] if ar < 2 else ['None', 'R0', 'R1', 'R2']
        if small and ar == 2:
            reqs = ['None', 'R0', 'R2']
        for req in itertools.product(reqs, repeat=ar):
            for p in ('P0', 'P1', 'P2'):
                for n in (('', 'n') if ar < 2 else ('',)):
                    keys.append((req, p, n))
    return keys


def lookup_keys(arity):
    looks = ['R0', 'R1', 'R2', 'R3', 'R4', 'SK', 'SK2', 'pK', 'pob'] if arity < 2 else \
        ['R0', 'R1', 'R2', 'R3', 'SK2']
    for lreq in itertools.product(looks, repeat=arity):
        for qp in ('P0', 'P1', 'P2', 'P3'):
            for nm in (('', 'n') if arity < 2 else ('',)):
                yield lreq, qp, nm


def build(h, flavour, layout, entries):
    """layout: 'chain' (reg -> base) or 'fork' (reg -> base, base2).
    entries: list of ((req names, prov, name), placement index)."""
    cls = FLAVOURS[flavour]
    base = cls()
    base2 = cls()
    reg = cls((base,) if layout == 'chain' else (base, base2))
    regs = [reg, base, base2]
    contents = []
    for j, (k, place) in enumerate(entries):
        req, p, nm = k
        val = FalsyStr('v%d' % j) if j % 2 == 0 else 'v%d' % j
        regs[place].register([h.req[r] for r in req], h.prov[p], nm, val)
        contents.append((place, tuple(h.req[r] for r in req), h.prov[p], nm, val))
    ro_index = {0: 0, 1: 1} if layout == 'chain' else {0: 0, 1: 1, 2: 2}
    return reg, contents, ro_index


def eval_registry(h, flavour, layout, entries, stats):
    reg, contents, ro_index = build(h, flavour, layout, entries)
    arities = sorted({len(k[0]) for k, _ in entries}) or [1]
    for ar in arities:
        for lreq, qp, nm in lookup_keys(ar):
            required = [h.look[x] for x in lreq]
            stats[0] += 1
            got = reg.lookup(required, h.qprov[qp], nm, SENT)
            acc = lookup_winners(ro_index, contents, required, h.qprov[qp], nm)
            if acc is None:
                if got is not SENT:
                    return ('found-although-none-applies', lreq, qp, nm, got)
                if reg.lookup(required, h.qprov[qp], nm) is not None:
                    return ('default-not-None', lreq, qp, nm)
            else:
                if len(acc) > 1 or len(contents) > 1:
                    stats[1] += 1
                if not any(got is a for a in acc):
                    return ('wrong-winner', lreq, qp, nm, got if got is not SENT else 'default', acc)
    return None


def eval_provseq(h, flavour, seq, stats):
    """The 'most general provided interface wins' rule depends on the order in
    which provided interfaces were first registered and last unregistered (the
    extendors lists are maintained incrementally): every *sequence* of
    register / unregister over the provided hierarchy P0, P1(P0), P2(P0),
    P3(P1,P2), P4(P1) under one required key (two for placement in the base)."""
    cls = FLAVOURS[flavour]
    base = cls()
    reg = cls((base,))
    regs = [reg, base]
    live = {}
    for j, (op, place, p) in enumerate(seq):
        if op == 'reg':
            val = 'v%d' % j
            regs[place].register([h.R0], h.prov[p], '', val)
            live[(place, p)] = val
        else:
            regs[place].unregister([h.R0], h.prov[p], '')
            live.pop((place, p), None)
    contents = [(place, (h.R0,), h.prov[p], '', val) for (place, p), val in live.items()]
    for recreated in (False, True):
      if recreated:
        # the lookup objects are created anew over the populated registries, as
        # a persistent registry does after loading its state: the extendors are
        # rebuilt from the registrations instead of having grown incrementally
        for r in regs:
            r._createLookup()
            r.changed(r)
      for lreq in ('R0', 'R2'):
          for qp in ('P0', 'P1', 'P2', 'P3', 'P4'):
              stats[0] += 1
              got = reg.lookup([h.look[lreq]], h.qprov[qp], '', SENT)
              acc = lookup_winners({0: 0, 1: 1}, contents, [h.look[lreq]], h.qprov[qp], '')
              if acc is None:
                  if got is not SENT:
                      return ('found-although-none-applies', lreq, qp, '', got)
              else:
                  if len(contents) > 1:
                      stats[1] += 1
                  if not any(got is a for a in acc):
                      return ('wrong-winner', lreq, qp, '', got if got is not SENT else 'default', acc)
    return None


def evaluate(arg):
    flavour, layout, combos = arg
    h = H()
    viol = []
    stats = [0, 0]
    n = 0
    for entries in combos:
        n += 1
        if layout == 'provseq':
            v = eval_provseq(h, flavour, entries, stats)
        else:
            v = eval_registry(h, flavour, layout, entries, stats)
        if v:
            viol.append(dict(sig='C04:' + v[0],
                             case=dict(flavour=flavour, layout=layout, entries=entries),
                             detail=dict(flavour=flavour, layout=layout, registrations=entries,
                                         violation=v)))
        if n % 300 == 0:
            gc.collect()
    gc.collect()
    return dict(n=n, viol=viol, lookups=stats[0], contested=stats[1])


def _t(x):
    return tuple(_t(y) for y in x) if isinstance(x, (list, tuple)) else x


def replay(case):
    fn = eval_provseq if case['layout'] == 'provseq' else None
    if fn:
        v = fn(H(), case['flavour'], _t(case['entries']), [0, 0])
        return dict(violation=v) if v else None
    v = eval_registry(H(), case['flavour'], case['layout'], _t(case['entries']), [0, 0])
    return dict(violation=v) if v else None


def contents_of_size(keys, size, places):
    for combo in itertools.combinations(keys, size):
        for assign in itertools.product(places, repeat=size):
            yield tuple(zip(combo, assign))


def run(ctx):
    from ..runner import finish, chunks
    quick = ctx.tier == 'quick'
    jobs = []
    allk = key_universe((0, 1, 2), small=True)
    mixed = [c for s in (0, 1, 2) for c in contents_of_size(allk, s, (0, 1))]
    k1 = key_universe((1,))
    k2 = key_universe((2,))
    plans = [('chain', mixed)]
    if quick:
        fork = [c for s in (1, 2) for c in contents_of_size(k1[::2], s, (0, 1, 2))]
        plans.append(('fork', fork))
    else:
        plans.append(('chain', list(contents_of_size(k1, 3, (0, 1)))))
        plans.append(('chain', list(contents_of_size(k2[::2], 3, (0, 1)))))
        plans.append(('fork', [c for s in (1, 2) for c in contents_of_size(k1 + k2[::3], s, (0, 1, 2))]))
    # sequences of register/unregister over the provided hierarchy (order matters)
    PS = ('P0', 'P1', 'P2', 'P3', 'P4')
    ops = [('reg', 0, p) for p in PS] + [('unreg', 0, p) for p in PS] + [('reg', 1, p) for p in ('P1', 'P3')]
    L = 4 if quick else 5
    provseq = [q for n in range(1, L + 1) for q in itertools.product(ops, repeat=n)
               if q[0][0] == 'reg' and all(q[i] != q[i + 1] for i in range(len(q) - 1))]
    plans.append(('provseq', provseq))
    total_regs = 0
    for impl in ('c', 'py'):
        for flavour in FLAVOURS:
            for layout, combos in plans:
                if quick and flavour == 'verifying' and layout in ('fork', 'provseq'):
                    continue
                size = max(50, len(combos) // 64)
                res = ctx.map(impl, 'evaluate',
                              [(flavour, layout, c) for c in chunks(combos, size)])
                for r in res:
                    ctx.add(evaluations=r['lookups'], states=r['n'],
                            distinct_nontrivial=r['contested'])
                    for v in r['viol']:
                        v['impl'] = impl
                    ctx.violations(r['viol'])
                ctx.log(impl, flavour, layout, 'registries', len(combos), 'lookups so far', ctx.count['evaluations'])
    ctx.count['transitions'] = ctx.count['evaluations']
    ctx.sample(dict(registrations=mixed[len(mixed) // 2], fields='((required names, provided, name), 0=registry 1=base 2=second base)'))
    ctx.sample(dict(provided_sequence=provseq[len(provseq) // 2], fields='(op, 0=registry 1=base, provided) under required [R0]; lookups from R0 and R2(R0,R1) for each of P0..P4'))
    ctx.sample(dict(lookup_keys_arity1=list(lookup_keys(1))[:5]))
    ctx.assumptions += ['hierarchy: R0, R1, R2(R0,R1), R3(R1,R0), R4(R2); P0, P1(P0), P2(P0), P3(P1,P2), P4(P1); class K implements R2, K2(K) implements R1, an instance directly providing R3',
                        'two incomparable provided interfaces at the same rank: either is accepted (the property does not resolve it)']
    return finish(
        ctx, 'model_checking',
        'every registry content up to the size bound (each registration placed in the registry or a base) is built on real registries of both flavours and every lookup key is compared with a brute-force ranking of the registration list (registry order, then per-position __sro__ index left to right, then most general provided)',
        'complete enumeration of subsets of the key universe x placements x lookup keys; states = registries, evaluations = lookups, distinct_nontrivial = lookups with more than one registration present')
