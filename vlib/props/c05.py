"""C05 — lookup caches are transparent: answers never depend on earlier lookups.

E1 (shape-enumerated histories): every history of the given shape over the
lookup alphabet L (every entry point on colliding keys) and the mutation
alphabet M (every mutation kind the property names, on the registry, its base
and a registry that becomes a base later). Oracle = twin world: a fresh world
replays only the mutations of the prefix and performs that single lookup.
"""
import gc
import itertools

from zope.interface import (Interface, classImplements, classImplementsOnly,
                            directlyProvides, noLongerProvides, Declaration, implementedBy)
from zope.interface.interface import InterfaceClass, Specification
from zope.interface.adapter import AdapterRegistry, VerifyingAdapterRegistry
from zope.interface.declarations import _empty
from .common import wmod, newworld

FLAVOURS = {'adapter': AdapterRegistry, 'verifying': VerifyingAdapterRegistry}


def mk(n, *b):
    return InterfaceClass(n, b or (Interface,), {'__module__': wmod()})


CALLS = []


class F:
    def __init__(s, tag):
        s.tag = tag

    def __call__(s, *obs):
        CALLS.append(s.tag)
        return (s.tag,) + tuple(type(o).__name__ for o in obs)

    def __repr__(s):
        return 'F(%s)' % s.tag


def build(flavour):
    cls = FLAVOURS[flavour]
    newworld()
    W = {}
    W['R0'] = mk('R0')
    W['R1'] = mk('R1', W['R0'])
    W['X'] = mk('X')
    W['P'] = mk('P')
    W['P1'] = mk('P1', W['P'])
    W['Y'] = mk('Y')
    W['Y1'] = mk('Y1', W['Y'])       # second position of a multi-adapter key
    K = type('K', (), {})
    classImplements(K, W['R0'])
    W['K'] = K
    W['SK'] = implementedBy(K)
    W['ob'] = K()
    W['ob2'] = K()
    # a class chain without any interface: Z <- ZC <- ZS; an adapter can be
    # registered for implementedBy(Z) itself, and narrowing ZC changes the
    # __sro__ of ZS's specification but not its (empty) __iro__
    Z = type('Z', (), {})
    ZC = type('ZC', (Z,), {})
    ZS = type('ZS', (ZC,), {})
    W['ZC'] = ZC
    W['SZ'] = implementedBy(Z)
    W['SZS'] = implementedBy(ZS)
    W['obz'] = ZS()
    W['D'] = Declaration(W['R1'])          # a plain declaration used as required spec
    W['top'] = cls()
    W['base'] = cls()
    W['reg'] = cls((W['base'],))
    W['saved_lookup'] = W['reg'].lookup     # an entry point fetched before anything happens
    for t in 'abcdehgknt':
        W['f' + t] = F(t)
    # the third registry is populated from the start, so that one re-basing is
    # enough to make it matter
    W['top'].register([W['R0']], W['P'], 't', W['ft'])
    W['top'].subscribe([W['R0']], W['P'], W['ft'])
    W['NONE'] = None               # provided=None: handlers; required None: any specification
    W['E'] = _empty                # the shared empty declaration (process-wide singleton)
    return W


MUT = []
# the third registry only becomes a base through regbases: four ops are enough there
MUT += [('register', 'top', ('R0',), 'P', '', 'fa'), ('unregister', 'top', ('R0',), 'P', ''),
        ('subscribe', 'top', ('R0',), 'P', 'fd'), ('unsubscribe', 'top', ('R0',), 'P', 'fd')]
for rg in ('reg', 'base'):
    MUT += [('register', rg, ('R0',), 'P', '', 'fa'), ('register', rg, ('R1',), 'P1', '', 'fb'),
            ('register', rg, ('X',), 'P', '', 'fe'), ('register', rg, ('R0',), 'P', 'n', 'fc'),
            ('unregister', rg, ('R0',), 'P', ''), ('unregister', rg, ('R1',), 'P1', ''),
            ('subscribe', rg, ('R0',), 'P', 'fd'), ('subscribe', rg, ('X',), 'P', 'fe'),
            ('unsubscribe', rg, ('R0',), 'P', 'fd'), ('unsubscribe', rg, ('R0',), 'P', None)]
# a second value for a key used above: replaces what is registered, if anything is
MUT += [('register', 'reg', ('R0',), 'P', '', 'fb'), ('register', 'base', ('R0',), 'P', '', 'fb')]
for rg in ('reg', 'base'):
    MUT += [('subscribe', rg, ('R0',), 'NONE', 'fh'), ('unsubscribe', rg, ('R0',), 'NONE', 'fh')]
MUT += [('register', 'reg', ('R0', 'Y'), 'P', '', 'fg'), ('ibases', 'Y1', ()), ('ibases', 'Y1', ('Y',))]
MUT += [('rebuild', 'base'), ('rebuild', 'reg')]      # replaces every internal structure, keeps the contents
MUT += [('register', 'reg', ('NONE',), 'P', 'any', 'fn')]
MUT += [('regbases', 'reg', ()), ('regbases', 'reg', ('base',)), ('regbases', 'reg', ('top',)),
        ('regbases', 'base', ('top',)), ('regbases', 'base', ())]
MUT += [('ibases', 'R1', ('R0',)), ('ibases', 'R1', ()), ('ibases', 'R1', ('X',)),
        ('ibases', 'R0', ('X',)), ('ibases', 'R0', ()),
        ('ibases', 'D', ('R0',)), ('ibases', 'D', ('X',)), ('ibases', 'D', ('R1',))]
MUT += [('register', 'reg', ('SZ',), 'P', '', 'fk'), ('cio', 'ZC'), ('ci', 'ZC', 'X')]
MUT += [('ci', 'K', 'R1'), ('ci', 'K', 'X'), ('cio', 'K', 'X'), ('cio', 'K'),
        ('dp', 'ob', 'R1'), ('dp', 'ob', 'X'), ('dp', 'ob'), ('nlp', 'ob', 'X'), ('gc',)]
LOOK = []
for key in (('R1',), ('R0',)):
    LOOK += [('lookup', key, 'P', ''), ('lookup1', key, 'P', ''), ('lookupAll', key, 'P'),
             ('names', key, 'P'), ('subscriptions', key, 'P')]
for key in (('D',), ('SK',)):      # a plain declaration / a class specification as key
    LOOK += [('lookup', key, 'P', ''), ('lookupAll', key, 'P'), ('subscriptions', key, 'P')]
LOOK += [('lookup', ('R1',), 'P', 'n'), ('lookup', ('R1',), 'P', 't'), ('lookup', ('R1', 'R0'), 'P', ''),
         ('lookup', ('R1', 'Y1'), 'P', ''), ('lookupAll', ('R1', 'Y1'), 'P'),
         ('queryAdapter', 'ob', 'P', ''), ('adapter_hook', 'ob', 'P', ''),
         ('queryMultiAdapter', 'ob', 'P', ''), ('subscribers', 'ob', 'P'),
         ('queryAdapter', 'ob2', 'P', ''), ('adapter_hook', 'ob', 'P1', ''),
         ('adapter_hook', 'ob', 'P', None),      # two positional arguments only
         ('subscriptions', ('R1',), 'NONE'), ('subscribers', 'ob', 'NONE'),
         ('queryAdapter', 'obz', 'P', ''), ('lookup', ('SZS',), 'P', ''),
         ('lookup', ('E',), 'P', 'any'),
         ('saved-lookup', ('R1',), 'P', '')]
LOOKSET = set(LOOK)


def reach(s, acc):
    if any(s is x for x in acc):
        return acc
    acc.append(s)
    for b in s.__bases__:
        reach(b, acc)
    return acc


def do_mut(W, op):
    t = op[0]
    try:
        if t == 'register':
            W[op[1]].register([W[x] for x in op[2]], W[op[3]], op[4], W[op[5]])
        elif t == 'unregister':
            W[op[1]].unregister([W[x] for x in op[2]], W[op[3]], op[4])
        elif t == 'subscribe':
            W[op[1]].subscribe([W[x] for x in op[2]], W[op[3]], W[op[4]])
        elif t == 'unsubscribe':
            W[op[1]].unsubscribe([W[x] for x in op[2]], W[op[3]], W[op[4]] if op[4] else None)
        elif t == 'rebuild':
            W[op[1]].rebuild()
        elif t == 'regbases':
            new = tuple(W[x] for x in op[2])
            me = W[op[1]]
            # refuse cycles between registries
            for b in new:
                if any(x is me for x in reach(b, [])):
                    return
            me.__bases__ = new
        elif t == 'ibases':
            new = tuple(W[x] for x in op[2])
            if op[1] != 'D' and not new:
                new = (Interface,)
            if any(any(x is W[op[1]] for x in reach(b, [])) for b in new):
                return
            W[op[1]].__bases__ = new
        elif t == 'ci':
            classImplements(W[op[1]], W[op[2]])
        elif t == 'cio':
            classImplementsOnly(W[op[1]], *[W[x] for x in op[2:]])
        elif t == 'dp':
            directlyProvides(W[op[1]], *[W[x] for x in op[2:]])
        elif t == 'nlp':
            noLongerProvides(W[op[1]], W[op[2]])
        elif t == 'gc':
            gc.collect()
    except ValueError:
        pass


def norm(x):
    if isinstance(x, (list, tuple)):
        return tuple(norm(y) for y in x)
    return repr(x)


def do_look(W, op):
    t = op[0]
    r = W['reg']
    if t == 'lookup':
        return norm(r.lookup([W[x] for x in op[1]], W[op[2]], op[3]))
    if t == 'saved-lookup':
        return norm(W['saved_lookup']([W[x] for x in op[1]], W[op[2]], op[3]))
    if t == 'lookup1':
        return norm(r.lookup1(W[op[1][0]], W[op[2]], op[3]))
    if t == 'lookupAll':
        return norm(sorted(r.lookupAll([W[x] for x in op[1]], W[op[2]]), key=repr))
    if t == 'names':
        return norm(sorted(r.names([W[x] for x in op[1]], W[op[2]])))
    if t == 'subscriptions':
        return norm(r.subscriptions([W[x] for x in op[1]], W[op[2]]))
    if t == 'queryAdapter':
        return norm(r.queryAdapter(W[op[1]], W[op[2]], op[3]))
    if t == 'adapter_hook':
        if op[3] is None:
            # exactly what calling an interface does with an installed hook
            return norm(r.adapter_hook(W[op[2]], W[op[1]]))
        return norm(r.adapter_hook(W[op[2]], W[op[1]], op[3]))
    if t == 'queryMultiAdapter':
        return norm(r.queryMultiAdapter([W[op[1]]], W[op[2]], op[3]))
    if t == 'subscribers':
        del CALLS[:]
        res = norm(r.subscribers([W[op[1]]], W[op[2]]))
        return (res, tuple(CALLS))    # handlers return nothing: what was called is the answer


def run_hist(flavour, h, stats=None):
    """Every lookup in the history is compared with the twin's answer."""
    if tuple(_empty.__sro__) != (_empty, Interface):
        # left damaged by an earlier history of this worker (reported there):
        # put the process-wide singleton back so that histories stay independent
        Specification.changed(_empty, _empty)
    W = build(flavour)
    for i, op in enumerate(h):
        if op in LOOKSET:
            got = do_look(W, op)
            if i == 0:
                continue            # nothing happened before: trivially transparent
            T = build(flavour)
            for o in h[:i]:
                if o not in LOOKSET:
                    do_mut(T, o)
            exp = do_look(T, op)
            if stats is not None and i == len(h) - 1:
                stats.add(exp)
            if got != exp:
                return (i, op, got, exp)
        elif op == ('WARM',):
            for l in LOOK:
                do_look(W, l)
        else:
            do_mut(W, op)
    # the shared empty declaration is what it always was, whatever looked it up
    if tuple(_empty.__sro__) != (_empty, Interface) or not _empty.isOrExtends(Interface):
        return (len(h) - 1, ('the-shared-empty-declaration',), repr(tuple(_empty.__sro__)),
                '(_empty, Interface)')
    return None


def trace_hist(flavour, h):
    """Raw behaviour of one history (every lookup answer, in order), for the
    lock-step comparison of the two implementations in C10."""
    W = build(flavour)
    out = []
    for op in h:
        if op in LOOKSET:
            try:
                out.append(do_look(W, op))
            except Exception as e:
                out.append('EXC:' + type(e).__name__)
        elif op == ('WARM',):
            for l in LOOK:
                try:
                    out.append(do_look(W, l))
                except Exception as e:
                    out.append('EXC:' + type(e).__name__)
        else:
            do_mut(W, op)
    return out


def same_family(l1, l2):
    """l2 may share a cache (or a subscription to a specification) with l1."""
    k1 = l1[1] if isinstance(l1[1], tuple) else ('ob',)
    k2 = l2[1] if isinstance(l2[1], tuple) else ('ob',)
    obfam = {('ob',), ('SK',), ('R0',)}
    return k1 == k2 or (k1 in obfam and k2 in obfam)


def histories(shape, part, nparts):
    """shape: string over L, M, W (warm everything), l (a lookup of the same
    family as the first lookup), s (the same lookup as the first one).
    Deterministic enumeration, sliced."""
    first_l = shape.find('L')
    free = [i for i, c in enumerate(shape) if c != 's']
    pools = [LOOK if shape[i] in 'Ll' else MUT if shape[i] == 'M' else [('WARM',)]
             for i in free]
    n = -1
    for combo in itertools.product(*pools):
        h = [None] * len(shape)
        for i, v in zip(free, combo):
            h[i] = v
        ok = True
        for i, c in enumerate(shape):
            if c == 's':
                h[i] = h[first_l]
            elif c == 'l' and not same_family(h[first_l], h[i]):
                ok = False
                break
        if not ok:
            continue
        n += 1
        if n % nparts == part:
            yield tuple(h)


def evaluate(arg):
    flavour, shape, part, nparts = arg
    viol = []
    n = 0
    outcomes = set()
    for h in histories(shape, part, nparts):
        n += 1
        try:
            v = run_hist(flavour, h, outcomes)
        except Exception as e:
            import traceback
            tb = traceback.format_exc().strip().splitlines()
            viol.append(dict(sig='C05:exception:' + type(e).__name__,
                             case=dict(flavour=flavour, hist=h),
                             detail=dict(flavour=flavour, history=h, error=repr(e), where=tb[-8:])))
            continue
        if v and v[1][0] == 'saved-lookup' and ('rebuild', 'reg') in h[:v[0]]:
            # a family of its own (known finding): rebuild() creates a new lookup
            # object, and an entry point fetched earlier stays bound to the old one
            viol.append(dict(sig='C05:entry-point-fetched-before-rebuild',
                             case=dict(flavour=flavour, hist=h),
                             detail=dict(flavour=flavour, history=h, step=v[0], lookup=v[1],
                                         got=v[2], fresh_registry_answers=v[3])))
        elif v:
            viol.append(dict(sig='C05:stale:%s-after-%s' % (v[1][0], '+'.join(sorted({o[0] for o in h[:v[0]] if o not in LOOKSET and o != ('WARM',)}))),
                             case=dict(flavour=flavour, hist=h),
                             detail=dict(flavour=flavour, history=h, step=v[0], lookup=v[1],
                                         got=v[2], fresh_registry_answers=v[3])))
        if n % 1500 == 0:
            gc.collect()
    gc.collect()
    return dict(n=n, viol=viol, outcomes=len(outcomes))


def _t(x):
    return tuple(_t(y) for y in x) if isinstance(x, (list, tuple)) else x


def replay(case):
    try:
        v = run_hist(case['flavour'], _t(case['hist']))
    except Exception as e:
        return dict(exception=repr(e))
    return dict(step=v[0], lookup=v[1], got=v[2], fresh_registry_answers=v[3]) if v else None


def run(ctx):
    from ..runner import finish
    from ..pool import NPROC
    quick = ctx.tier == 'quick'
    shapes = ['LML', 'WMWML', 'LMMs'] if quick else \
        ['LML', 'WMWML', 'WMWMWML', 'LMMl', 'MLMl', 'MLMs', 'LMML']
    if 'shapes' in ctx.opts:
        shapes = ctx.opts['shapes'].split(',')
    nparts = NPROC * 4
    for impl in ('c', 'py'):
        for flavour in FLAVOURS:
            for shape in shapes:
                if quick and flavour == 'verifying' and shape == 'LMMs' and impl == 'py':
                    continue        # quick: the third shape of the verifying flavour on the C implementation only
                res = ctx.map(impl, 'evaluate',
                              [(flavour, shape, p, nparts) for p in range(nparts)])
                tot = 0
                for r in res:
                    tot += r['n']
                    for v in r['viol']:
                        v['impl'] = impl
                    ctx.violations(r['viol'])
                    ctx.add(distinct_nontrivial=r['outcomes'])
                ctx.add(transitions=tot)
                ctx.info['%s/%s/%s' % (impl, flavour, shape)] = tot
                ctx.log(impl, flavour, shape, 'histories', tot)
                if ctx.unknown_viol() and not ctx.opts.get('keep_going'):
                    break
            if ctx.unknown_viol() and not ctx.opts.get('keep_going'):
                break
        if ctx.unknown_viol() and not ctx.opts.get('keep_going'):
            break
    ctx.count['states'] = ctx.count['transitions']
    ctx.count['traces_validated_against_impl'] = ctx.count['transitions']
    ctx.info['alphabet'] = dict(lookups=len(LOOK), mutations=len(MUT))
    ctx.sample(dict(shape='LMMs', history=next(histories('LMMs', 7, 1000))))
    ctx.sample(dict(shape='WMWML', history=next(histories('WMWML', 3, 1000)), note='WARM = perform every lookup of the alphabet'))
    ctx.assumptions += ['shapes: L = any lookup, M = any mutation, s = the same lookup as the first one, l = a lookup that can share a cache or a specification subscription with the first one, W = every lookup of the alphabet',
                        'the twin has the same registry flavour; resolution-order correctness of registry chains is C06']
    return finish(
        ctx, 'model_checking',
        'every history of each shape over %d lookups (all entry points, colliding keys) and %d mutations (register/unregister/subscribe/unsubscribe on the registry, its base and a third registry; registry __bases__; __bases__ of interfaces and of a declaration used as required; class and instance declaration changes; gc) is executed on real registries of both flavours and every lookup is compared with a fresh world that performed only the mutations' % (len(LOOK), len(MUT)),
        'complete enumeration per shape; distinct_nontrivial = distinct final answers seen per shard, summed')
