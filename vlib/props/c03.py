"""C03 — resolution orders are valid linearizations and equal C3 when C3 exists.

E2: every DAG with ordered base lists up to n nodes is built as real
InterfaceClass objects (and, smaller, as class hierarchies with declarations);
oracles: textbook C3 and CPython's type.mro() on a mirrored hierarchy,
cross-checked on every DAG. Settings: default, strict=, use_legacy_ro=, and
the environment switches (strict, legacy, log-changed, track-bad) in separate
worker processes; the same DAGs built from falsy interfaces.
"""
import gc
import itertools
import logging
import os

from zope.interface import Interface, ro, implementedBy, classImplements
from zope.interface.interface import InterfaceClass

from .. import gen
from .common import wmod, newworld

logging.disable(logging.CRITICAL)

if os.environ.get('ZOPE_INTERFACE_LOG_CHANGED_IRO'):
    import logging
    logging.getLogger('zope.interface.ro').setLevel(logging.CRITICAL)    # keep the reports off stderr
MODE = ('strict' if os.environ.get('ZOPE_INTERFACE_STRICT_IRO') else
        'legacy' if os.environ.get('ZOPE_INTERFACE_USE_LEGACY_IRO') else 'default')


class FalsyInterfaceClass(InterfaceClass):
    """Interfaces that are false in a boolean context (an InterfaceClass
    subclass is free to define __len__ or __bool__)."""

    def __bool__(self):
        return False


IC = FalsyInterfaceClass if os.environ.get('VERIF_C03_FALSY') else InterfaceClass


def _graph(spec, names):
    """Read the actual __bases__ graph below *spec* (nodes = generated names)."""
    bases = {}
    st = [spec]
    while st:
        s = st.pop()
        n = names[id(s)]
        if n in bases:
            continue
        bases[n] = [names[id(b)] for b in s.__bases__]
        st.extend(s.__bases__)
    # every node without bases derives from the root
    for n in list(bases):
        if not bases[n] and n != 'R':
            bases[n] = ['R']
    bases.setdefault('R', [])
    return bases


def check_spec(spec, names, is_iface, memo=None, graph=None):
    """All C03 obligations for one live specification. Returns a violation
    tuple or None. ``names`` maps id(spec) -> name ('R' for Interface)."""
    bases = graph or _graph(spec, names)
    me = names[id(spec)]
    sro = [names.get(id(x), '?') for x in spec.__sro__]
    if not gen.linearization_ok(sro, me, bases, 'R'):
        return ('sro-not-a-linearization', me, sro)
    iro = [names.get(id(x), '?') for x in spec.__iro__]
    if iro != [x for x in sro if is_iface(x)]:
        return ('iro-not-sro-restricted-to-interfaces', me, iro, sro)
    exp = gen.c3_or_none(me, bases, memo if memo is not None else {})
    if MODE == 'legacy':
        return None
    if exp is not None and sro != exp:
        return ('sro-not-C3', me, sro, exp)
    return None


def check_ro_functions(spec, names, exp, me, bases):
    r2 = [names.get(id(x), '?') for x in ro.ro(spec)]
    if MODE != 'legacy':
        if exp is not None and r2 != exp:
            return ('ro.ro-not-C3', me, r2, exp)
    if not gen.linearization_ok(r2, me, bases, 'R'):
        return ('ro.ro-not-a-linearization', me, r2)
    try:
        r3 = ro.ro(spec, strict=True)
        strict_ok = True
    except ro.InconsistentResolutionOrderError:
        strict_ok = False
    if strict_ok != (exp is not None):
        return ('strict-raises-iff-no-C3', me, strict_ok)
    if strict_ok and [names.get(id(x), '?') for x in r3] != exp:
        return ('strict-result-not-C3', me)
    ic = ro.is_consistent(spec)
    if ic != (exp is not None):
        return ('is_consistent', me, ic)
    leg = [names.get(id(x), '?') for x in
           ro.ro(spec, use_legacy_ro=True, log_changed_ro=False)]
    if not gen.linearization_ok(leg, me, bases, 'R'):
        return ('legacy-not-a-linearization', me, leg)
    if exp is not None:
        nonstrict = [names.get(id(x), '?') for x in ro.ro(spec, strict=False)]
        if MODE != 'legacy' and nonstrict != exp:
            return ('ro.ro(strict=False)-not-C3', me, nonstrict, exp)
    return None


class _Plain:
    """Anything with ``__bases__`` can be linearized by ro.ro()."""

    def __init__(self, n, bases):
        self.n = n
        self.__bases__ = tuple(bases)

    def __repr__(self):
        return 'N%s' % self.n


def strict_env_overrides(dag, i, bases):
    root = _Plain('R', ())
    N = []
    for j in range(i + 1):
        N.append(_Plain(j, [N[b] for b in dag[j]] or [root]))
    nm = {id(x): x.n for x in N}
    nm[id(root)] = 'R'
    try:
        ic = ro.is_consistent(N[i])
    except ro.InconsistentResolutionOrderError:
        return ('is_consistent-raises-under-strict-env', i)
    if ic is not False:
        return ('is_consistent', i, ic)
    try:
        r = [nm.get(id(x), '?') for x in ro.ro(N[i], strict=False)]
    except ro.InconsistentResolutionOrderError:
        return ('explicit-strict=False-does-not-override-strict-env', i)
    if not gen.linearization_ok(r, i, bases, 'R'):
        return ('ro.ro(strict=False)-not-a-linearization', i, r)
    try:
        ro.ro(N[i])
        return ('strict-env-ignored-by-ro.ro', i)
    except ro.InconsistentResolutionOrderError:
        pass
    for j in range(i):
        if ro.is_consistent(N[j]) is not True:
            return ('is_consistent', j, False)
    return None


def eval_dag(dag):
    """Build the DAG as interfaces and check every node. Returns
    (violation or None, number of nodes without C3)."""
    newworld()
    n = len(dag)
    bases = {i: list(bs) or ['R'] for i, bs in enumerate(dag)}
    bases['R'] = []
    memo = {}
    py = gen.pymro(dag)
    exps = {}
    for i in range(n):
        exps[i] = gen.c3_or_none(i, bases, memo)
        if (exps[i] is None) != (i not in py):
            return ('ORACLES-DISAGREE-existence', i), 0
        if exps[i] is not None and exps[i] != py[i]:
            return ('ORACLES-DISAGREE-order', i, exps[i], py[i]), 0
    I = []
    names = {id(Interface): 'R'}
    incons = 0
    for i, bs in enumerate(dag):
        try:
            x = IC('N%d' % i, tuple(I[b] for b in bs) or (Interface,),
                   {'__module__': wmod()})
        except ro.InconsistentResolutionOrderError:
            if MODE == 'strict' and exps[i] is None:
                # correct refusal; the DAG ends here.  The explicit arguments
                # still override the environment switch: on a mirror of the
                # DAG made of plain objects, is_consistent answers False and
                # strict=False linearizes instead of raising
                return strict_env_overrides(dag, i, bases), incons + 1
            return ('construction-raised-although-C3-exists', i), incons
        if MODE == 'strict' and exps[i] is None:
            return ('strict-env-accepted-inconsistent-node', i), incons
        I.append(x)
        names[id(x)] = i
    for i in range(n):
        v = check_spec(I[i], names, lambda x: True, memo, bases)
        if v:
            return v, incons
        if exps[i] is None:
            incons += 1
        if MODE == 'default':
            v = check_ro_functions(I[i], names, exps[i], i, bases)
            if v:
                return v, incons
    return None, incons


def eval_dag_root(item):
    """A DAG in which one node names the root explicitly among its bases, at
    a given position (``class L(Interface, IFoo)``): before another base no C3
    order exists (CPython refuses the mirrored classes), at the end it changes
    nothing."""
    dag, k, j = item
    newworld()
    n = len(dag)
    bases = {i: list(bs) or ['R'] for i, bs in enumerate(dag)}
    bases[k] = list(dag[k][:j]) + ['R'] + list(dag[k][j:])
    bases['R'] = []
    memo = {}
    exps = {i: gen.c3_or_none(i, bases, memo) for i in range(n)}
    # CPython on the mirrored hierarchy
    K = {}
    for i in range(n):
        bs = [('R' if b == 'R' else K.get(b)) for b in bases[i]]
        if any(b is None for b in bs):
            ok = False
        else:
            try:
                K[i] = type('K%d' % i, tuple(object if b == 'R' else b for b in bs), {})
                ok = True
            except TypeError:
                ok = False
        if ok != (exps[i] is not None):
            return ('ORACLES-DISAGREE-existence', i), 0
    I = []
    names = {id(Interface): 'R'}
    incons = 0
    for i in range(n):
        try:
            x = IC('N%d' % i, tuple(Interface if b == 'R' else I[b] for b in bases[i]),
                   {'__module__': wmod()})
        except ro.InconsistentResolutionOrderError:
            if MODE == 'strict' and exps[i] is None:
                return None, incons + 1
            return ('construction-raised-although-C3-exists', i), incons
        if MODE == 'strict' and exps[i] is None:
            return ('strict-env-accepted-inconsistent-node', i), incons
        I.append(x)
        names[id(x)] = i
    for i in range(n):
        v = check_spec(I[i], names, lambda x: True, memo, bases)
        if v:
            return v, incons
        if exps[i] is None:
            incons += 1
        if MODE == 'default':
            v = check_ro_functions(I[i], names, exps[i], i, bases)
            if v:
                return v, incons
    return None, incons


def evaluate(arg):
    kind, items = arg
    viol = []
    n = 0
    incons = 0
    nodes = 0
    for it in items:
        if kind == 'dag':
            cases = [it]
        elif kind == 'prefix':          # all extensions of a prefix by one node
            pre, maxlen, full = it
            k = len(pre)
            cases = []
            for bs in gen.ordered_subsets(k, maxlen):
                if full:
                    # keep only DAGs whose last node has every other node as ancestor
                    b = {i: list(x) for i, x in enumerate(pre)}
                    b[k] = list(bs)
                    if len(gen.ancestors(k, b)) != k + 1:
                        continue
                cases.append(tuple(pre) + (bs,))
        elif kind == 'dagroot':
            cases = None
            n += 1
            nodes += len(it[0])
            v, inc = eval_dag_root(it)
            incons += inc
            if v:
                viol.append(dict(sig='C03:explicit-root:' + v[0], case=dict(kind='dagroot', item=it, mode=MODE),
                                 detail=dict(dag=it[0], node=it[1], root_at=it[2], violation=v, mode=MODE)))
            continue
        elif kind == 'cls':
            cases = None
            v, m = eval_classes(it)
            n += 1
            nodes += m
            if v:
                viol.append(dict(sig='C03:' + v[0], case=dict(kind='cls', item=it, mode=MODE),
                                 detail=dict(classes=it, violation=v, mode=MODE)))
            continue
        for dag in cases:
            n += 1
            nodes += len(dag)
            v, inc = eval_dag(dag)
            incons += inc
            if v:
                viol.append(dict(sig='C03:' + v[0], case=dict(kind='dag', item=dag, mode=MODE),
                                 detail=dict(dag=dag, violation=v, mode=MODE)))
        if n % 2000 < 10:
            gc.collect()
    gc.collect()
    return dict(n=n, viol=viol, stats=dict(nodes_without_C3=incons, nodes_checked=nodes))


# -- class hierarchies with declarations -----------------------------------

J_BASES = {'J0': (), 'J1': ('J0',), 'J2': ('J0',), 'J3': ('J2', 'J1')}


def eval_classes(item):
    """item = (class dag, per-class declared interface names tuple).
    Specification graph mixes Implements and interfaces."""
    dag, decls = item
    newworld()
    J = {}
    names = {id(Interface): 'R'}
    for jn, bs in J_BASES.items():
        J[jn] = InterfaceClass(jn, tuple(J[b] for b in bs) or (Interface,), {'__module__': wmod()})
        names[id(J[jn])] = jn
    K = []
    for i, bs in enumerate(dag):
        try:
            K.append(type('K%d' % i, tuple(K[b] for b in bs) or (object,), {'__module__': wmod()}))
        except TypeError:
            return None, 0            # CPython refuses this hierarchy
    # declare in reverse definition order too (late declaration on a base)
    order = range(len(dag))
    for i in order:
        if decls[i]:
            classImplements(K[i], *[J[x] for x in decls[i]])
    specs = [implementedBy(k) for k in K]
    for i, s in enumerate(specs):
        names[id(s)] = 'K%d' % i
    names[id(implementedBy(object))] = 'Kobject'
    memo = {}
    is_iface = lambda x: x == 'R' or str(x).startswith('J')
    for s in specs:
        try:
            v = check_spec(s, names, is_iface, memo)
        except KeyError as e:
            return ('unknown-spec-in-graph', repr(e)), 0
        if v:
            return v, 0
    return None, len(specs)


def replay(case):
    if case.get('kind') == 'rebase':
        from . import c02
        return c02.replay(case)
    if case.get('mode') and case['mode'] != MODE:
        return dict(error='replay needs mode %s' % case['mode'])
    if case['kind'] == 'dagroot':
        dag, k, j = case['item']
        v, _ = eval_dag_root((tuple(tuple(b) for b in dag), k, j))
        return dict(violation=v, case=case) if v else None
    if case['kind'] == 'cls':
        dag, decls = case['item']
        v, _ = eval_classes((tuple(tuple(b) for b in dag), tuple(tuple(d) for d in decls)))
    else:
        v, _ = eval_dag(tuple(tuple(b) for b in case['item']))
    return dict(violation=v, case=case) if v else None


ENVS = {'default': None,
        'strict': {'ZOPE_INTERFACE_STRICT_IRO': '1'},
        'legacy': {'ZOPE_INTERFACE_USE_LEGACY_IRO': '1'},
        # reporting orders that differ from the legacy one must not change any order
        'log': {'ZOPE_INTERFACE_LOG_CHANGED_IRO': '1'},
        # recording inconsistent orders must not change any order or verdict either
        'track': {'ZOPE_INTERFACE_TRACK_BAD_IRO': '1'},
        # same DAGs made of interfaces that are false in a boolean context
        'falsy': {'VERIF_C03_FALSY': '1'}}


def run(ctx):
    from ..runner import finish, chunks
    quick = ctx.tier == 'quick'
    n = int(ctx.opts.get('n', 5))
    ml = 3 if quick else 4
    all_dags = [d for k in range(1, n + 1) for d in gen.dags(k, ml)]
    jobs = [('dag', c) for c in chunks(all_dags, 200)]
    if not quick:
        # n = 6: every 5-node prefix (base lists <= 3) extended by a last node
        # that has all other nodes as ancestors, base list <= 3
        pre = list(gen.dags(5, 3))
        jobs += [('prefix', [(p, 3, True) for p in c]) for c in chunks(pre, 40)]
    # the root named explicitly among the bases of one node, at every position
    rn = 3 if quick else 4
    root_items = [(d, k, j) for kk in range(1, rn + 1) for d in gen.dags(kk, 2)
                  for k in range(kk) if d[k] for j in range(len(d[k]) + 1)]
    jobs += [('dagroot', c) for c in chunks(root_items, 200)]
    # class hierarchies: DAGs n<=3 (quick) / 4 (thorough) x declarations
    cn = 3 if quick else 4
    dopts = [(), ('J0',), ('J1',), ('J3',), ('J1', 'J2')] if quick else \
        [(), ('J0',), ('J1',), ('J2',), ('J3',), ('J1', 'J2'), ('J0', 'J3')]
    cls_items = [(d, ds) for d in gen.dags(cn, 2)
                 for ds in itertools.product(dopts, repeat=cn)]
    jobs += [('cls', c) for c in chunks(cls_items, 300)]
    for impl in ('c', 'py'):
        for mode in ('default', 'strict', 'legacy', 'log', 'track', 'falsy'):
            if mode != 'default' and impl == 'py' and quick:
                continue
            if mode in ('log', 'track', 'falsy') and quick:
                jobs_mode = [j for j in jobs if j[0] in ('dag', 'dagroot')]
            else:
                jobs_mode = jobs
            js = jobs_mode if mode != 'strict' else [j for j in jobs_mode if j[0] != 'cls']
            res = ctx.map(impl, 'evaluate', js, extra_env=ENVS[mode])
            tot = 0
            for r in res:
                tot += r['n']
                for v in r['viol']:
                    v['impl'] = impl
                    v['env'] = ENVS[mode]
                ctx.violations(r['viol'])
                ctx.merge_counts(r['stats'])
            ctx.add(evaluations=tot)
            ctx.info['%s/%s' % (impl, mode)] = dict(graphs=tot)
            ctx.log(impl, mode, 'graphs', tot)
    # rebasing histories re-checked with this oracle (E1, shared with C02)
    from ..e1 import bfs
    for impl in ('c', 'py'):
        cfg = dict(oracle='c03', maxb=2)
        r = bfs(ctx, impl, 'expand', cfg, 2 if quick else 3, label='rebase',
                pool_kw=dict(mod='c02'))
        ctx.add(states=r['states'], transitions=r['transitions'],
                evaluations=r['transitions'])
        ctx.info['%s/rebase-histories' % impl] = dict(
            depth=r['depth_done'], states=r['states'], transitions=r['transitions'])
    # the same histories with ZOPE_INTERFACE_STRICT_IRO=1: an operation is
    # refused exactly when it leaves a specification without a C3 order
    for impl in ('c', 'py'):
        cfg = dict(oracle='c03-strict', maxb=2, decl_ops=False)     # (a refused declaration call leaves no trace of what it attempted)
        r = bfs(ctx, impl, 'expand', cfg, int(ctx.opts.get('strict_depth', 4)), label='rebase-strict',
                pool_kw=dict(mod='c02', extra_env=ENVS['strict']))
        ctx.add(states=r['states'], transitions=r['transitions'],
                evaluations=r['transitions'])
        ctx.info['%s/rebase-histories-strict-env' % impl] = dict(
            depth=r['depth_done'], states=r['states'], transitions=r['transitions'])
    ctx.count['states'] += ctx.count['nodes_checked']
    ctx.count['transitions'] += ctx.count['evaluations']
    ctx.count['distinct_nontrivial'] = ctx.count['nodes_without_C3']
    ctx.sample(dict(dag=all_dags[len(all_dags) // 2], meaning='node k derives from the listed earlier nodes, in order; () = Interface'))
    ctx.sample(dict(classes=cls_items[len(cls_items) // 3]))
    ctx.assumptions += ['DAGs up to %d nodes (base lists <= %d)%s' % (n, 3 if quick else 4, '' if quick else ' plus 6-node DAGs whose last node dominates'),
                        'textbook C3 and CPython type.mro() agree with each other on every DAG (asserted)']
    return finish(
        ctx, 'model_checking',
        'every ordered-base DAG up to the bound is built from real InterfaceClass objects / classes with declarations; every node is checked against the linearization invariants, a textbook C3, CPython\'s MRO, strict mode and is_consistent; plus all rebasing histories up to the depth',
        'complete enumeration of DAGs in topological numbering; distinct_nontrivial = nodes for which no C3 linearization exists (where legacy fallback, strict and is_consistent matter)')
