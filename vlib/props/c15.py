"""C15 — attribute, tagged-value and invariant resolution follow __iro__.

E2: every interface DAG up to n nodes x every subset of nodes defining
attribute x / tag t / an invariant; E1: __bases__ reassignments (depth <= 2)
with the accessors called before and after (the _v_attrs cache).
"""
import gc
import itertools

from zope.interface import Interface, Attribute, Invalid
from zope.interface.interface import InterfaceClass

from .. import gen
from .common import wmod, newworld

CALLS = []
EXTRA_TAGS = {}      # node index -> tags set on it after construction (this case)


def tagval(i):
    """Value of tag 't' on node i; None is a legal value."""
    return None if i % 3 == 1 else i


class Boom(Exception):
    pass


class FalsyAttribute(Attribute):
    """A description that is falsy (think of a container-like field): only
    None means 'not defined here'."""

    def __len__(self):
        return 0


class Observer:
    """A dependent of node k: looks at node k from inside the notification
    (everything node k answers must already follow its new __iro__) and, in
    'raise' mode, fails once so that propagation stops there."""

    def __init__(self, I, defs, k, mode):
        self.I, self.defs, self.k, self.mode = I, defs, k, mode
        self.seen = None
        self.armed = False

    def changed(self, originally_changed):
        if not self.armed:
            return
        I, k = self.I, self.k
        iro = [_idx(I, x) for x in I[k].__iro__ if x is not Interface]
        self.seen = self.seen or check_node(I, self.defs, k, iro)
        if self.mode == 'raise':
            self.armed = False
            raise Boom()


def _idx(I, x):
    for j, y in enumerate(I):
        if y is x:
            return j
    raise ValueError(x)


def mknode(I, i, bs, defs, mod, label=''):
    if True:
        attrs = {'__module__': mod}
        if defs[i]:
            attrs['x'] = (FalsyAttribute if i % 2 else Attribute)('x of %d%s' % (i, label))
            attrs['y%d' % i] = Attribute('only in %d' % i)

            def inv(ob, i=i):
                CALLS.append(i)
                if i % 2:
                    raise Invalid('inv%d' % i)
            attrs['__interface_tagged_values__'] = {
                't': tagval(i), 'only%d' % i: 1, 'invariants': [inv]}
        return InterfaceClass('N%d' % i, tuple(I[b] for b in bs) or (Interface,), attrs)


def build(dag, defs, obs=None):
    newworld()
    mod = wmod()
    I = []
    O = None
    for i, bs in enumerate(dag):
        I.append(mknode(I, i, bs, defs, mod))
        if obs and obs[1] == i and obs[2] == 'first':
            O = Observer(I, defs, i, obs[0])
            I[i].subscribe(O)
    if obs and O is None:
        O = Observer(I, defs, obs[1], obs[0])
        I[obs[1]].subscribe(O)
    return I, O, mod


def check_all(I, defs):
    n = len(I)
    for i in range(n):
        try:
            iro = [_idx(I, x) for x in I[i].__iro__ if x is not Interface]
        except ValueError:
            return ('iro-lists-an-interface-that-is-not-an-ancestor-any-more', i,
                    [getattr(x, '__name__', '?') for x in I[i].__iro__])
        v = check_node(I, defs, i, iro)
        if v:
            return v
    return None


def check_node(I, defs, i, iro):
    X = I[i]
    # what the interface says it extends is what its resolution order lists
    # (also when asked from inside a change notification, or after one failed)
    for j in range(len(I)):
        if bool(X.isOrExtends(I[j])) != (j in iro) or bool(X.extends(I[j], strict=False)) != (j in iro):
            return ('isOrExtends-vs-iro', i, j, j in iro)
    if not X.isOrExtends(Interface):
        return ('isOrExtends-root', i)
    first = next((j for j in iro if defs[j]), None)
    exp = None if first is None else I[first].direct('x')
    nd = dict(X.namesAndDescriptions(all=True))
    got = {'get': X.get('x'), 'queryDescriptionFor': X.queryDescriptionFor('x'),
           'namesAndDescriptions': nd.get('x')}
    try:
        got['getitem'] = X['x']
    except KeyError:
        got['getitem'] = None
    try:
        got['getDescriptionFor'] = X.getDescriptionFor('x')
    except KeyError:
        got['getDescriptionFor'] = None
    for k, g in got.items():
        if g is not exp:
            return ('description:' + k, i, getattr(g, '__doc__', None),
                    getattr(exp, '__doc__', None))
    pres = exp is not None
    if ('x' in X) != pres:
        return ('presence:in', i)
    if ('x' in list(X)) != pres:
        return ('presence:iter', i)
    if ('x' in X.names(all=True)) != pres:
        return ('presence:names', i)
    expnames = set()
    for j in iro:
        if defs[j]:
            expnames |= {'x', 'y%d' % j}
    if set(X.names(all=True)) != expnames or set(X) != expnames or set(nd) != expnames:
        return ('name-set', i, sorted(X.names(all=True)), sorted(expnames))
    if len(list(X.names(all=True))) != len(expnames) or len(list(X)) != len(expnames):
        return ('name-duplicates', i)
    # direct listing
    own = {'x', 'y%d' % i} if defs[i] else set()
    if set(X.names()) != own or set(dict(X.namesAndDescriptions())) != own:
        return ('names(all=False)', i)
    for j in iro:
        if defs[j]:
            if X.get('y%d' % j) is not I[j].direct('y%d' % j) or nd.get('y%d' % j) is not I[j].direct('y%d' % j):
                return ('description-unique-name', i, j)
    et = 'ABSENT' if first is None else tagval(first)
    if X.queryTaggedValue('t', 'ABSENT') != et:
        return ('queryTaggedValue', i, X.queryTaggedValue('t', 'ABSENT'), et)
    try:
        gt = X.getTaggedValue('t')
    except KeyError:
        gt = 'ABSENT'
    if gt != et:
        return ('getTaggedValue', i, gt, et)
    if X.queryTaggedValue('nope', 'dflt') != 'dflt':
        return ('queryTaggedValue-default', i)
    exptags = set()
    for j in iro:
        if defs[j]:
            exptags |= {'t', 'only%d' % j, 'invariants'}
    for j in iro:
        for t in EXTRA_TAGS.get(j, ()):
            exptags.add(t)
            if X.queryTaggedValue(t, 'ABSENT') == 'ABSENT':
                return ('queryTaggedValue-of-a-tag-set-later', i, t)
    if set(X.getTaggedValueTags()) != exptags:
        return ('getTaggedValueTags', i, sorted(X.getTaggedValueTags()), sorted(exptags))
    if X.queryDirectTaggedValue('t', 'ABSENT') != (tagval(i) if defs[i] else 'ABSENT'):
        return ('queryDirectTaggedValue', i)
    del CALLS[:]
    errs = []
    try:
        X.validateInvariants(object(), errs)
        raised = False
    except Invalid:
        raised = True
    expcalls = [j for j in iro if defs[j]]
    if CALLS != expcalls:
        return ('invariants-called', i, list(CALLS), expcalls)
    if [str(e) for e in errs] != ['inv%d' % j for j in expcalls if j % 2]:
        return ('invariants-collected', i, [str(e) for e in errs])
    if raised != bool(errs):
        return ('invariants-raise', i, raised)
    # without a list: raises on the first failing invariant
    del CALLS[:]
    try:
        X.validateInvariants(object())
        raised = False
    except Invalid as e:
        raised = str(e)
    failing = [j for j in expcalls if j % 2]
    if failing:
        if raised != 'inv%d' % failing[0] or CALLS != expcalls[:expcalls.index(failing[0]) + 1]:
            return ('invariants-first-failure', i, raised, list(CALLS))
    elif raised is not False or CALLS != expcalls:
        return ('invariants-no-failure', i, raised)
    return None


def rebase_ops(n, maxb=2):
    ops = []
    for k in range(n):
        others = [m for m in range(n) if m != k]
        for r in range(0, maxb + 1):
            for bs in itertools.permutations(others, r):
                ops.append((k, bs))
    return ops


def reach(I, s):
    acc = []
    st = [s]
    while st:
        x = st.pop()
        if all(x is not y for y in acc):
            acc.append(x)
            st.extend(x.__bases__)
    return acc


def eval_case(case):
    dag, defs, hist, warm = case[:4]
    obs = case[4] if len(case) > 4 else None
    EXTRA_TAGS.clear()
    I, O, mod = build(dag, defs, obs)
    if warm:
        v = check_all(I, defs)       # fills the caches before the rebasing
        if v:
            return v
    if O:
        O.armed = True
    failed_at = set()
    for op in hist:
        if op[0] == 'settag':
            # a tagged value set on an existing interface after its descendants
            # were queried
            k = op[1]
            t = 'late%d' % k
            I[k].setTaggedValue(t, ('late', k))
            EXTRA_TAGS.setdefault(k, set()).add(t)
        elif op[0] == 'swap':
            # replace node k, in every interface that lists it as a base, by a
            # twin: a distinct interface with the same name, module and bases
            # (as a module reload produces) and its own definitions
            k = op[1]
            twin = mknode(I, k, [_idx(I, b) for b in I[k].__bases__ if b is not Interface],
                          defs, mod, label=' (twin)')
            old = I[k]
            I[k] = twin
            for c in list(I):
                if any(b is old for b in c.__bases__):
                    c.__bases__ = tuple(twin if b is old else b for b in c.__bases__)
        else:
            k, bs = op
            new = tuple(I[b] for b in bs) or (Interface,)
            for b in new:
                if any(x is I[k] for x in reach(I, b)):
                    return 'disabled'
            try:
                I[k].__bases__ = new
            except Boom:
                # propagation stopped at the observer: interfaces further down
                # were not told (no transactional semantics are promised), but
                # the re-based interface and the observed one had completed
                # their own update and must answer consistently -- now, and
                # after whatever re-basing comes next
                failed_at = {k, O.k}
                for j in failed_at:
                    iro = [_idx(I, x) for x in I[j].__iro__ if x is not Interface]
                    v = check_node(I, defs, j, iro)
                    if v:
                        return ('after-failed-notification:' + v[0],) + tuple(v[1:])
                continue
            if failed_at:
                for j in failed_at | {k}:
                    iro = [_idx(I, x) for x in I[j].__iro__ if x is not Interface]
                    v = check_node(I, defs, j, iro)
                    if v:
                        return ('re-basing-after-a-failed-notification:' + v[0],) + tuple(v[1:])
                continue
        if O and O.seen:
            return ('inside-notification:' + O.seen[0],) + tuple(O.seen[1:])
        if warm == 2 and not failed_at:
            v = check_all(I, defs)
            if v:
                return v
    if failed_at:
        return None          # interfaces that were never told are allowed to lag
    return check_all(I, defs)


def evaluate(arg):
    viol = []
    n = 0
    nontriv = 0
    for case in arg:
        v = eval_case(case)
        if v == 'disabled':
            continue
        n += 1
        if sum(case[1]) >= 2:
            nontriv += 1
        if v:
            sig = 'C15:' + v[0]
            if len(case) > 5 and case[5] == 'twin-then-rebase':
                sig = 'C15:twin-of-a-live-dependent-misses-change-notifications'
            viol.append(dict(sig=sig, case=dict(case=case),
                             detail=dict(dag=case[0], defines=case[1], rebasing=case[2],
                                         queried_before=case[3], observer=case[4] if len(case) > 4 else None,
                                         violation=v)))
        if n % 500 == 0:
            gc.collect()
    gc.collect()
    return dict(n=n, viol=viol, nontriv=nontriv)


def _t(x):
    return tuple(_t(y) for y in x) if isinstance(x, (list, tuple)) else x


def replay(case):
    v = eval_case(_t(case['case']))
    return dict(violation=v) if v and v != 'disabled' else None


def run(ctx):
    from ..runner import finish, chunks
    quick = ctx.tier == 'quick'
    n = 4 if quick else 5
    cases = []
    for k in range(1, n + 1):
        for dag in gen.dags(k, 3):
            for defs in itertools.product((0, 1), repeat=k):
                cases.append((dag, defs, (), 0))
    n_static = len(cases)
    # rebasing histories on 3-node (quick) / 4-node (thorough) graphs, depth <= 2
    rn = 3 if quick else 4
    ops = rebase_ops(rn)
    hists = [(o,) for o in ops] + [(a, b) for a in ops for b in ops]
    starts = [d for d in gen.dags(rn, 2)]
    if not quick:
        starts = starts[::3]
    for dag in starts:
        for defs in itertools.product((0, 1), repeat=rn):
            if sum(defs) < 2:
                continue
            for h in hists:
                if len(h) == 2 and not quick and h[0][0] == h[1][0]:
                    continue
                cases.append((dag, defs, h, 2 if len(h) == 2 else 1))
    # twins swapped in (warm caches), alone and followed by one more rebasing
    for dag in gen.dags(rn, 2):
        for defs in itertools.product((0, 1), repeat=rn):
            if sum(defs) < 1:
                continue
            for k in range(rn):
                cases.append((dag, defs, (('swap', k),), 1))
                for o in ops[::3]:
                    cases.append((dag, defs, (o, ('swap', k)), 2))
                    # a re-basing *after* the swap is a family of its own: the
                    # twin is equal to the interface it replaces, and change
                    # notifications are keyed by equality (known finding)
                    cases.append((dag, defs, (('swap', k), o), 2, None, 'twin-then-rebase'))
    # tags set later, on any node, with warm caches; alone and around a rebasing
    for dag in gen.dags(rn, 2):
        for defs in itertools.product((0, 1), repeat=rn):
            for k in range(rn):
                cases.append((dag, defs, (('settag', k),), 1))
                for o in ops[::3]:
                    cases.append((dag, defs, (('settag', k), o), 2))
                    cases.append((dag, defs, (o, ('settag', k)), 2))
    # an observer subscribed to a node looks at it from inside the notification,
    # or raises there (propagation stops; everything must stay self-consistent)
    # Raising observers only on 3-node graphs: with four nodes an interface can
    # sit below the failure point on two paths, and what it then answers depends
    # on which of its bases was told first -- nothing the property promises.
    for on in sorted({3, rn}):
        oops = rebase_ops(on)
        for dag in gen.dags(on, 2):
            for defs in itertools.product((0, 1), repeat=on):
                if sum(defs) < 2:
                    continue
                for o in oops:
                    for k in range(on):
                        for mode in (('look', 'raise') if on == 3 else ('look',)):
                            for pos in ('first', 'last'):
                                cases.append((dag, defs, (o,), 1, (mode, k, pos)))
                                if mode == 'raise':
                                    for o2 in oops[::2]:
                                        cases.append((dag, defs, (o, o2), 1, (mode, k, pos)))
    for impl in ('c', 'py'):
        res = ctx.map(impl, 'evaluate', chunks(cases, 500))
        for r in res:
            ctx.add(evaluations=r['n'], distinct_nontrivial=r['nontriv'])
            for v in r['viol']:
                v['impl'] = impl
            ctx.violations(r['viol'])
        ctx.log(impl, 'cases', ctx.count['evaluations'])
    ctx.count['distinct_nontrivial'] //= 2
    ctx.count['states'] = len(cases)
    ctx.count['transitions'] = ctx.count['evaluations']
    ctx.info['static_cases'] = n_static
    ctx.info['rebasing_cases_generated'] = len(cases) - n_static
    ctx.sample(dict(dag=cases[n_static - 5][0], defines_x_tag_invariant=cases[n_static - 5][1]))
    ctx.sample(dict(dag=cases[-1][0], defines=cases[-1][1], rebasing_history=cases[-1][2]))
    return finish(
        ctx, 'model_checking',
        'every interface DAG up to %d nodes x every subset of defining nodes, plus every rebasing history of depth <= 2 on %d-node graphs with accessors called before/between/after; every accessor of every node is compared with "first interface in __iro__ that defines it"' % (n, rn),
        'complete enumeration; non-trivial = at least two nodes define the name (an override exists)')
