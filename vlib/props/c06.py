"""C06 — registries consult exactly their current base chain, in resolution order.

E1: BFS (to a fixpoint where reached) over registry DAGs of one flavour:
R.__bases__ = <ordered subset> at any level, register / unregister / subscribe
/ unsubscribe of a per-registry token in any member, lookups from any member
(which warm the caches). Oracle: reference C3 over the *current* bases graph.
Also through Components.__bases__.
"""
import gc
import hashlib
import itertools

from zope.interface import Interface
from zope.interface.interface import InterfaceClass
from zope.interface.adapter import AdapterRegistry, VerifyingAdapterRegistry
from zope.interface.registry import Components

from .. import gen
from .common import wmod, newworld


def mk(n, *b):
    return InterfaceClass(n, b or (Interface,), {'__module__': wmod()})


class Tok(str):
    """A registered value that can also serve as an adapter factory."""

    def __call__(self, *obs):
        return (str(self), 'adapted')


class FalsyTok(Tok):
    """... and is false in a boolean context (an empty container registered as
    a utility, say): only None means "nothing registered"."""

    def __bool__(self):
        return False


def tok(n):
    # the tokens of r0, r2, ... are falsy
    return (FalsyTok if int(n[1:]) % 2 == 0 else Tok)('V' + n)


class World:
    def __init__(self, cfg):
        newworld()
        self.kind = cfg['kind']
        self.names = ['r%d' % i for i in range(cfg['nreg'])]
        self.R = mk('R')
        self.R1 = mk('R1', self.R)
        self.P = mk('P')
        self.PU = mk('PU')
        from zope.interface import implementer
        self.ob = implementer(self.R1)(type('K', (), {}))()
        if self.kind == 'components':
            self.reg = {n: Components(n) for n in self.names}
        else:
            cls = AdapterRegistry if self.kind == 'adapter' else VerifyingAdapterRegistry
            self.reg = {n: cls() for n in self.names}
        self.bases = {n: () for n in self.names}
        self.regd = set()
        self.regd2 = set()
        self.subs = []

    def areg(self, n):
        return self.reg[n].adapters if self.kind == 'components' else self.reg[n]

    def apply(self, op):
        t, n = op[0], op[1]
        if t == 'bases':
            bs = op[2]
            if any(n in gen.ancestors(b, self.bases) for b in bs):
                return False
            nb = dict(self.bases)
            nb[n] = bs
            try:
                for m in self.names:
                    gen.c3(m, nb, {})
            except gen.NoC3:
                return False          # inconsistent registry orders: out of scope
            self.reg[n].__bases__ = tuple(self.reg[b] for b in bs)
            self.bases = nb
        elif t == 'reg':
            self.areg(n).register([self.R], self.P, '', tok(n))
            if self.kind == 'components':
                self.reg[n].registerUtility('U' + n, self.PU)
            self.regd.add(n)
        elif t == 'unreg':
            self.areg(n).unregister([self.R], self.P, '')
            if self.kind == 'components':
                self.reg[n].unregisterUtility(provided=self.PU)
            self.regd.discard(n)
        elif t == 'reg2':
            # an extends pair: the registration is for the base interface R,
            # the lookup is made with R1(R); even registries use R, odd R1
            req = self.R if int(n[1:]) % 2 == 0 else self.R1
            self.areg(n).register([req], self.P, 'x', 'W' + n)
            self.regd2.add(n)
        elif t == 'unreg2':
            req = self.R if int(n[1:]) % 2 == 0 else self.R1
            self.areg(n).unregister([req], self.P, 'x')
            self.regd2.discard(n)
        elif t == 'sub':
            if n in self.subs:
                return False
            self.areg(n).subscribe([self.R], self.P, 'S' + n)
            self.subs.append(n)
        elif t == 'unsub':
            if n not in self.subs:
                return False
            self.areg(n).unsubscribe([self.R], self.P, 'S' + n)
            self.subs.remove(n)
        elif t == 'rebuild':
            if self.kind == 'components':
                return False
            self.reg[n].rebuild()
        elif t == 'reinit':
            # Components.__init__ doubles as "reset this registry" (the library's
            # own test clean-up does that): contents go, the bases are given again
            if self.kind != 'components':
                return False
            if any(n in bs for bs in self.bases.values()):
                # re-initialising a registry that others list as a base leaves
                # them attached to its discarded adapter/utility registries; that
                # use of __init__ is outside what the library supports
                return False
            self.reg[n].__init__(n, tuple(self.reg[b] for b in self.bases[n]))
            self.regd.discard(n)
            self.regd2.discard(n)
            if n in self.subs:
                self.subs.remove(n)
        elif t == 'look':
            r = self.areg(n)
            r.lookup([self.R1], self.P)
            r.subscriptions([self.R1], self.P)
            r.lookupAll([self.R1], self.P)
            r.queryAdapter(self.ob, self.P)
            if self.kind == 'components':
                self.reg[n].queryUtility(self.PU)
        return True

    def check(self):
        inv = {id(self.areg(x)): x for x in self.names}
        for n in self.names:
            order = gen.c3(n, self.bases, {})
            r = self.areg(n)
            exp = next(('V' + m for m in order if m in self.regd), None)
            # queryAdapter first: it is an entry point of its own in the C
            # accelerator and must notice changes without the help of the others
            got = r.queryAdapter(self.ob, self.P)
            if got != (None if exp is None else (exp, 'adapted')):
                return ('queryAdapter', n, got, exp, dict(self.bases))
            for req in (self.R, self.R1):
                got = r.lookup([req], self.P)
                if got != exp:
                    return ('lookup', n, got, exp, dict(self.bases))
            exp2 = next(('W' + m for m in order if m in self.regd2), None)
            got = r.lookup([self.R1], self.P, 'x')
            if got != exp2:
                return ('lookup-extends-pair', n, got, exp2, dict(self.bases))
            expall = sorted(([('', exp)] if exp else []) + ([('x', exp2)] if exp2 else []))
            if sorted(r.lookupAll([self.R1], self.P)) != expall:
                return ('lookupAll', n, sorted(r.lookupAll([self.R1], self.P)), expall)
            exps = ['S' + m for r_ in reversed(order) for m in self.subs if m == r_]
            gots = list(r.subscriptions([self.R1], self.P))
            if gots != exps:
                return ('subscriptions', n, gots, exps)
            ro = [inv.get(id(x), '?') for x in r.ro]
            if ro != order:
                return ('ro', n, ro, order)
            if self.kind == 'components':
                c = self.reg[n]
                expu = next(('U' + m for m in order if m in self.regd), None)
                if c.queryUtility(self.PU) != expu:
                    return ('queryUtility', n, c.queryUtility(self.PU), expu)
                if [inv2(self, x) for x in c.utilities.ro] != order:
                    return ('utilities.ro', n, [inv2(self, x) for x in c.utilities.ro], order)
                if sorted(c.getAllUtilitiesRegisteredFor(self.PU)) != sorted('U' + m for m in order if m in self.regd):
                    return ('getAllUtilitiesRegisteredFor', n)
        return None

    def fresh_twin_differs(self):
        """A registry DAG built fresh in the final shape answers the same."""
        T = World(dict(kind=self.kind, nreg=len(self.names)))
        order = []
        todo = list(self.names)
        while todo:
            for n in list(todo):
                if all(b in order for b in self.bases[n]):
                    order.append(n)
                    todo.remove(n)
        for n in order:
            if self.bases[n]:
                T.apply(('bases', n, self.bases[n]))
        for n in sorted(self.regd):
            T.apply(('reg', n))
        for n in sorted(self.regd2):
            T.apply(('reg2', n))
        for n in self.subs:
            T.apply(('sub', n))
        for n in self.names:
            a, b = self.areg(n), T.areg(n)
            for req, name in ((self.R1, ''), (self.R1, 'x'), (self.R, '')):
                treq = T.R1 if req is self.R1 else T.R
                if a.lookup([req], self.P, name) != b.lookup([treq], T.P, name):
                    return ('fresh-twin-lookup', n, name)
            if list(a.subscriptions([self.R1], self.P)) != list(b.subscriptions([T.R1], T.P)):
                return ('fresh-twin-subscriptions', n)
        return None

    def canon(self):
        inv = {id(self.areg(x)): x for x in self.names}
        out = [tuple(sorted(self.bases.items())), tuple(sorted(self.regd)),
               tuple(sorted(self.regd2)), tuple(self.subs)]
        for n in self.names:
            r = self.areg(n)
            out.append(tuple(inv.get(id(x), '?') for x in r.ro))
            sub = getattr(r, '_v_subregistries', None)
            out.append(tuple(sorted(inv.get(id(x), '?') for x in sub.keys())) if sub is not None else ())
            out.append(cache_digest(r._v_lookup, inv))
        return tuple(out)


def inv2(w, reg):
    for n in w.names:
        if w.reg[n].utilities is reg:
            return n
    return '?'


class _Ob:
    def __init__(self, iface):
        from zope.interface import directlyProvides
        directlyProvides(self, iface)


def _rk(k):
    if isinstance(k, tuple):
        return tuple(_rk(x) for x in k)
    return getattr(k, '__name__', None) or repr(k)


def _rd(d):
    if isinstance(d, dict):
        return tuple(sorted(((_rk(k), _rd(v)) for k, v in d.items()), key=repr))
    if isinstance(d, (list, tuple)):
        return tuple(_rd(x) for x in d)
    return repr(d)


def cache_digest(lk, inv):
    """Contents of the lookup object's caches (and, for verifying lookups,
    whether the generation snapshot is current), for state merging only."""
    caches = []
    if hasattr(lk, '_cache'):          # Python implementation
        caches = [lk._cache, lk._mcache, lk._scache]
        vro = getattr(lk, '_verify_ro', None)
        vgen = getattr(lk, '_verify_generations', None)
    else:
        vro = vgen = None
        d = getattr(lk, '__dict__', None)
        tuples = []
        for x in gc.get_referents(lk):
            if isinstance(x, dict) and x is not d:
                caches.append(x)
            elif isinstance(x, tuple):
                tuples.append(x)
        for t in tuples:
            if t and all(isinstance(g, int) for g in t):
                vgen = t
            elif t:
                vro = t
    out = [tuple(sorted((_rd(c) for c in caches), key=repr))]
    if vro is not None and vgen is not None:
        cur = tuple(r._generation for r in vro)
        out.append((tuple(inv.get(id(r), '?') for r in vro), cur == tuple(vgen)))
    req = getattr(lk, '_required', None)
    if req is not None:
        out.append(tuple(sorted(_rk(r()) if callable(r) else _rk(r) for r in req)))
    return tuple(out)


def all_ops(cfg):
    names = ['r%d' % i for i in range(cfg['nreg'])]
    ops = []
    for n in names:
        others = [m for m in names if m != n]
        for k in range(0, cfg.get('maxb', 2) + 1):
            for bs in itertools.permutations(others, k):
                ops.append(('bases', n, bs))
        ops += [('reg', n), ('unreg', n), ('sub', n), ('unsub', n), ('look', n)]
        if cfg.get('kind') != 'components':
            ops.append(('rebuild', n))
        else:
            ops.append(('reinit', n))
        if cfg.get('pair'):
            ops += [('reg2', n), ('unreg2', n)]
    return ops


def run_hist(cfg, hist):
    w = World(cfg)
    for op in cfg.get('init', ()):
        # exploration may start from a non-initial state (a chain that is
        # already built and populated), which puts deeper re-basings in reach
        assert w.apply(tuple(op)), op
    for op in hist:
        if not w.apply(tuple(op)):
            return w, 'disabled'
    return w, (w.check() or w.fresh_twin_differs())


def expand(arg):
    cfg, hists = arg
    ops = all_ops(cfg)
    viol = []
    new = []
    local = set()
    n = 0
    for h in hists:
        for op in ops:
            hh = tuple(h) + (op,)
            w, v = run_hist(cfg, hh)
            if v == 'disabled':
                continue
            n += 1
            if v:
                viol.append(dict(sig='C06:%s:%s' % (cfg['kind'], v[0]), case=dict(cfg=cfg, hist=hh),
                                 detail=dict(kind=cfg['kind'], history=hh, violation=v)))
                continue
            key = hashlib.blake2b(repr(w.canon()).encode(), digest_size=12).digest()
            if key not in local:
                local.add(key)
                new.append((key, hh))
        if n % 1500 < 40:
            gc.collect()
    gc.collect()
    return dict(trans=n, viol=viol, new=new)


def _t(x):
    return tuple(_t(y) for y in x) if isinstance(x, (list, tuple)) else x


def replay(case):
    w, v = run_hist(case['cfg'], _t(case['hist']))
    return dict(violation=v, history=case['hist']) if v and v != 'disabled' else None


# r0 -> r1 -> r2 with r3 detached, r2 and r3 populated, every cache warm
CHAIN4 = (('bases', 'r0', ('r1',)), ('bases', 'r1', ('r2',)), ('reg', 'r2'), ('reg', 'r3'),
          ('sub', 'r2'), ('sub', 'r3'), ('look', 'r0'), ('look', 'r1'))


def run(ctx):
    from ..e1 import bfs
    from ..runner import finish
    quick = ctx.tier == 'quick'
    plans = []
    for kind in ('adapter', 'verifying', 'components'):
        if quick:
            plans.append((dict(kind=kind, nreg=3, maxb=2), 5))
            if kind != 'components':
                plans.append((dict(kind=kind, nreg=3, maxb=1, pair=True), 4))
                # four registries: the smallest DAG in which a registry *below*
                # the re-based one has two bases above it to be re-ordered
                plans.append((dict(kind=kind, nreg=4, maxb=2), 3))
                plans.append((dict(kind=kind, nreg=4, maxb=1, init=CHAIN4), 3))
        else:
            plans.append((dict(kind=kind, nreg=3, maxb=2), 30))
            plans.append((dict(kind=kind, nreg=4, maxb=2), 4))
            plans.append((dict(kind=kind, nreg=4, maxb=2, init=CHAIN4), 4))
            plans.append((dict(kind=kind, nreg=3, maxb=2, pair=True), 5))
    for impl in ('c', 'py'):
        for cfg, depth in plans:
            depth = int(ctx.opts.get('depth', depth))
            label = '%s/%dreg%s%s' % (cfg['kind'], cfg['nreg'], '+pair' if cfg.get('pair') else '',
                                      '+from-chain' if cfg.get('init') else '')
            r = bfs(ctx, impl, 'expand', cfg, depth, label=label,
                    max_states=int(ctx.opts.get('max_states', 400000)))
            ctx.add(states=r['states'], transitions=r['transitions'])
            ctx.info['%s/%s' % (impl, label)] = dict(
                depth=r['depth_done'], states=r['states'], transitions=r['transitions'],
                fixpoint=r['fixpoint'], new_states_per_depth=r['per_level'])
            if r['frontier']:
                ctx.sample(dict(impl=impl, config=label,
                                history=r['frontier'][len(r['frontier']) // 2]), limit=5)
            if ctx.unknown_viol():
                break
        if ctx.unknown_viol():
            break
    ctx.count['traces_validated_against_impl'] = ctx.count['transitions']
    ctx.assumptions += ['homogeneous registry DAGs (one flavour), acyclic, with a C3-consistent order; at most one live subscription per registry',
                        'state merging uses the contents of the lookup caches (read through attributes in Python, through gc.get_referents in C)']
    return finish(
        ctx, 'model_checking',
        'every history of __bases__ reassignments at any level, register/unregister/subscribe/unsubscribe in any member and cache-warming lookups from any member is replayed on real registries (AdapterRegistry, VerifyingAdapterRegistry, Components); after every history lookup/lookupAll/subscriptions/ro of every registry are compared with a reference C3 over the current bases graph and with a registry DAG built fresh in the final shape',
        'BFS over histories de-duplicated on (bases graph, contents, ro, sub-registry sets, cache contents, generation snapshot currency); fixpoint = every reachable state visited')
