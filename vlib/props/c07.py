"""C07 — subscriptions() returns every applicable subscriber, with
multiplicity, in order.

E1: BFS over subscribe/unsubscribe histories (duplicates, equal-but-distinct
values, handlers with provided=None, arity 0-2) on a registry and its base;
oracle: list model with the documented unsubscribe semantics; multiset
equality plus the pairwise order constraints the property states.
"""
import collections
import gc
import hashlib
import itertools

from zope.interface import Interface, implementedBy, classImplements
from zope.interface.interface import InterfaceClass
from zope.interface.adapter import AdapterRegistry, VerifyingAdapterRegistry

from .regmodel import registry_digest
from .common import wmod, newworld

FLAVOURS = {'adapter': AdapterRegistry, 'verifying': VerifyingAdapterRegistry}


class V:
    def __init__(s, tag, ident):
        s.tag = tag
        s.ident = ident

    def __eq__(s, o):
        return isinstance(o, V) and s.tag == o.tag

    def __ne__(s, o):
        return not s == o

    def __hash__(s):
        return hash(s.tag)

    def __repr__(s):
        return '%s#%d' % (s.tag, s.ident)

    def __call__(s, *obs):
        return (s, obs)


class FalsyV(V):
    """A registered value / subscriber that is falsy (an empty container used
    as a utility, say): only ``None`` means 'nothing registered'."""

    def __bool__(s):
        return False

    def __len__(s):
        return 0


def mk(n, *b):
    return InterfaceClass(n, b or (Interface,), {'__module__': wmod()})


def build(flavour):
    cls = FLAVOURS[flavour]
    newworld()
    W = {}
    W['R0'] = mk('R0')
    W['R1'] = mk('R1', W['R0'])
    W['R2'] = mk('R2', W['R1'])
    W['S0'] = mk('S0')
    W['S1'] = mk('S1', W['S0'])
    W['P0'] = mk('P0')
    W['P1'] = mk('P1', W['P0'])
    W['P2'] = mk('P2', W['P0'])      # a sibling of P1: two incomparable extendors of P0
    K = type('K', (), {})
    classImplements(K, W['R1'])
    W['SK'] = implementedBy(K)
    W['_K'] = K
    W[None] = None
    W['a'] = V('a', 1)
    W['a2'] = V('a', 2)
    W['b'] = FalsyV('b', 3)
    W['base'] = cls()
    W['reg'] = cls((W['base'],))
    return W


KEYS_FULL = [((), 'P0'), ((), None), (('R0',), 'P0'), (('R1',), 'P0'), (('R0',), 'P1'),
             ((None,), 'P0'), (('R0',), None), (('R1',), None), (('SK',), 'P0'),
             (('R0', 'S0'), 'P0'), (('R1', 'S0'), 'P0'), (('R0', 'S1'), 'P0'),
             (('R1', 'S1'), 'P1'), (('R0', 'S0'), None), (('R0',), 'P2')]
KEYS_SMALL = [((), 'P0'), (('R0',), 'P0'), (('R1',), 'P0'), (('R0',), 'P1'),
              ((None,), 'P0'), (('R1',), None), (('R0', 'S0'), 'P0'), (('R1', 'S1'), 'P0')]
LOOKS = [(), ('R0',), ('R1',), ('R2',), ('SK',), ('R1', 'S1'), ('R0', 'S1'), ('R1', 'S0'), ('R2', 'S1')]


def all_ops(cfg):
    keys = KEYS_FULL if cfg.get('keys') == 'full' else KEYS_SMALL
    if 'keyidx' in cfg:
        keys = [KEYS_FULL[i] for i in cfg['keyidx']]
    ops = []
    for rg in ('reg', 'base'):
        for k in keys:
            for v in ('a', 'a2', 'b'):
                ops.append(('sub', rg, k, v))
            for v in ('a', 'b', None):
                ops.append(('unsub', rg, k, v))
    return ops


def apply(W, M, op):
    t, rg, (req, prov), v = op
    r = [W[x] for x in req]
    if t == 'sub':
        W[rg].subscribe(r, W[prov], W[v])
        M.append((rg, tuple(req), prov, W[v]))
    else:
        W[rg].unsubscribe(r, W[prov], W[v] if v else None)
        M[:] = [e for e in M if not (e[0] == rg and e[1] == tuple(req) and e[2] == prov and
                                     (v is None or e[3] == W[v]))]


def spec_rank(W, looked, reqname):
    r = Interface if reqname is None else W[reqname]
    sro = list(W[looked].__sro__)
    for k, x in enumerate(sro):
        if x is r:
            return len(sro) - 1 - k      # less specific => smaller
    return None


def order_ok(got, exp, M):
    """Is there a way to attribute the returned values to the expected
    entries (identical objects are interchangeable) that satisfies every order
    constraint the property states? Returns None or the first violated
    constraint of the best attribution."""
    cons = []
    for (i, (e1, r1)), (j, (e2, r2)) in itertools.permutations(list(enumerate(exp)), 2):
        must = None
        if e1[0] == 'base' and e2[0] == 'reg':
            must = 'base-before-derived'
        elif e1[0] == e2[0]:
            if r1 != r2 and all(x <= y for x, y in zip(r1, r2)):
                must = 'less-specific-first'
            elif e1[1] == e2[1] and e1[2] == e2[2] and i < j:
                must = 'subscription-order'      # exp preserves M's order
        if must:
            cons.append((i, j, must))
    if not cons:
        return None
    groups = collections.OrderedDict()
    for i, (e, r) in enumerate(exp):
        groups.setdefault(id(e[3]), []).append(i)
    pos = collections.defaultdict(list)
    for k, x in enumerate(got):
        pos[id(x)].append(k)
    first_bad = None
    for perm in itertools.product(*[itertools.permutations(pos[g]) for g in groups]):
        where = {}
        for g, p in zip(groups, perm):
            for i, k in zip(groups[g], p):
                where[i] = k
        bad = next(((m, exp[i][0], exp[j][0]) for i, j, m in cons if not where[i] < where[j]), None)
        if bad is None:
            return None
        first_bad = first_bad or bad
    return first_bad


def check(W, M):
    reg = W['reg']
    for lreq in LOOKS:
        for lp in ('P0', 'P1', 'P2', None):
            required = [W[x] for x in lreq]
            got = reg.subscriptions(required, W[lp])
            exp = []
            for e in M:
                rg, req, prov, val = e
                if len(req) != len(lreq):
                    continue
                if lp is None:
                    if prov is not None:
                        continue
                elif prov is None or not W[prov].isOrExtends(W[lp]):
                    continue
                ranks = [spec_rank(W, l, q) for l, q in zip(lreq, req)]
                if any(x is None for x in ranks):
                    continue
                exp.append((e, tuple(ranks)))
            if sorted(id(x) for x in got) != sorted(id(e[0][3]) for e in exp):
                return ('multiset', lreq, lp, repr(got), repr([e[0][3] for e in exp]))
            v = order_ok(got, exp, M)
            if v:
                return ('order:' + v[0], lreq, lp, repr(got), repr(v[1]), repr(v[2]))
            # subscribers(): call each in order, drop None (handlers: nothing)
            if lreq and lp is not None and len(got) <= 3:
                obs = []
                ok = True
                for x in lreq:
                    if x == 'SK':
                        obs.append(W['_K']())
                    else:
                        ok = False
                if ok and obs:
                    res = reg.subscribers(obs, W[lp])
                    if [r[0] for r in res] != list(got) or any(r[1] != tuple(obs) for r in res):
                        return ('subscribers', lreq, lp)
    for rg in ('reg', 'base'):
        alls = sorted((tuple(id(x) for x in r), id(p), id(v))
                      for r, p, v in W[rg].allSubscriptions())
        exp = sorted((tuple(id(Interface if x is None else W[x]) for x in e[1]),
                      id(W[e[2]]), id(e[3])) for e in M if e[0] == rg)
        if alls != exp:
            return ('allSubscriptions', rg, alls, exp)
        for k in KEYS_FULL:
            for v in ('a', 'b'):
                got = W[rg].subscribed([W[x] for x in k[0]], W[k[1]], W[v])
                e = [x[3] for x in M if x[0] == rg and x[1] == tuple(k[0]) and x[2] == k[1] and x[3] == W[v]]
                if (got is None) != (not e) or (got is not None and got != W[v]):
                    return ('subscribed', rg, k, v, repr(got), repr(e))
    return None


def run_hist(cfg, hist):
    W = build(cfg['flavour'])
    M = []
    for op in hist:
        apply(W, M, op)
        if cfg.get('query_between'):
            W['reg'].subscriptions([W['R1']], W['P0'])
            W['reg'].subscriptions([W['R1'], W['S1']], W['P0'])
    return W, M, check(W, M)


def expand(arg):
    cfg, hists = arg
    ops = all_ops(cfg)
    viol = []
    new = []
    local = set()
    n = 0
    for h in hists:
        for op in ops:
            hh = tuple(h) + (op,)
            n += 1
            W, M, v = run_hist(cfg, hh)
            if v:
                viol.append(dict(sig='C07:' + v[0], case=dict(cfg=cfg, hist=hh),
                                 detail=dict(flavour=cfg['flavour'], history=hh, violation=v)))
                continue
            key = hashlib.blake2b(repr((
                [(e[0], e[1], e[2], repr(e[3])) for e in M],
                registry_digest(W['reg']), registry_digest(W['base']))).encode(),
                digest_size=12).digest()
            if key not in local:
                local.add(key)
                new.append((key, hh))
        if n % 2000 < 150:
            gc.collect()
    gc.collect()
    return dict(trans=n, viol=viol, new=new)


def _t(x):
    return tuple(_t(y) for y in x) if isinstance(x, (list, tuple)) else x


def replay(case):
    W, M, v = run_hist(case['cfg'], _t(case['hist']))
    return dict(violation=v, history=case['hist']) if v else None


def run(ctx):
    from ..e1 import bfs
    from ..runner import finish
    quick = ctx.tier == 'quick'
    for impl in ('c', 'py'):
        for flavour in FLAVOURS:
            plans = [(dict(flavour=flavour, keys='full'), 2, 'full'),
                     (dict(flavour=flavour, keyidx=[2, 3, 4, 7, 10, 14], query_between=True), 3, 'reduced')]
            if not quick:
                # depth 3 over the full key universe and depth 4 over the reduced
                # one are affordable for one flavour/implementation each
                plans = [(dict(flavour=flavour, keys='full'), 3 if flavour == 'adapter' else 2, 'full'),
                         (dict(flavour=flavour, keyidx=[2, 3, 4, 7, 10, 14], query_between=True),
                          4 if (flavour == 'adapter' and impl == 'c') else 3, 'reduced')]
            for cfg, depth, label in plans:
                r = bfs(ctx, impl, 'expand', cfg, int(ctx.opts.get('depth', depth)),
                        label='%s/%s' % (flavour, label))
                ctx.add(states=r['states'], transitions=r['transitions'])
                ctx.info['%s/%s/%s' % (impl, flavour, label)] = dict(
                    depth=r['depth_done'], states=r['states'], transitions=r['transitions'],
                    alphabet=len(all_ops(cfg)))
                if r['frontier']:
                    ctx.sample(dict(impl=impl, flavour=flavour, history=r['frontier'][len(r['frontier']) // 2]), limit=4)
                if ctx.unknown_viol():
                    break
            if ctx.unknown_viol():
                break
        if ctx.unknown_viol():
            break
    ctx.count['traces_validated_against_impl'] = ctx.count['transitions']
    ctx.assumptions += ['order between entries that differ only in provided, and between crossing required tuples, is not constrained (not stated by the property)']
    return finish(
        ctx, 'model_checking',
        'every subscribe/unsubscribe history up to the depth (values a, a\' equal-not-identical, b; handlers; arity 0-2; registry and base registry) is replayed on real registries of both flavours; subscriptions/subscribers/subscribed/allSubscriptions for 27 lookup keys are compared with a list model (multiset + stated order constraints) in every state',
        'BFS over histories de-duplicated on (model list, nested-container digest of both registries)')
