"""C16 — Components listings, lookups and events stay mutually consistent.

E1: BFS over histories of the eight register/unregister methods with equal,
identical, hashable and unhashable components, two names, related provided
interfaces, plus re-initialisation. Oracle: model of live registrations;
listings, queries (against fresh AdapterRegistry objects populated from the
model), the consistency probe, return values and the exact event sequence.
"""
import gc
import hashlib

from zope.interface import Interface, implementer, registry as regmod
from zope.interface.interface import InterfaceClass
from zope.interface.registry import Components
from zope.interface.adapter import AdapterRegistry
from zope.interface.interfaces import Registered, Unregistered

from .regmodel import registry_digest
from .common import wmod, newworld

EVENTS = []
HANDLED = []          # identities of the factories / handlers that were called
regmod.notify = lambda ev: EVENTS.append(ev)


class Comp:
    def __init__(s, tag, ident):
        s.tag = tag
        s.ident = ident

    def __eq__(s, o):
        return isinstance(o, Comp) and o.tag == s.tag

    def __ne__(s, o):
        return not s == o

    def __hash__(s):
        return hash(s.tag)

    def __repr__(s):
        return 'Comp(%s#%d)' % (s.tag, s.ident)

    def __call__(s, *a):
        HANDLED.append(s.ident)
        return (s.tag, s.ident) + tuple(getattr(x, 'nm', None) for x in a)


class UComp(Comp):
    __hash__ = None


class FalsyComp(Comp):
    """A component that is falsy (an empty container, say)."""

    def __bool__(s):
        return False

    def __len__(s):
        return 0


def build():
    newworld()
    W = {}
    W['P0'] = InterfaceClass('P0', (Interface,), {'__module__': wmod()})
    W['P1'] = InterfaceClass('P1', (W['P0'],), {'__module__': wmod()})
    W['R0'] = InterfaceClass('R0', (Interface,), {'__module__': wmod()})
    W['R1'] = InterfaceClass('R1', (W['R0'],), {'__module__': wmod()})
    W['u'] = Comp('u', 1)
    W['u2'] = Comp('u', 2)
    W['v'] = FalsyComp('v', 3)
    W['w'] = Comp('w', 9)
    W['w'].__component_name__ = 'n'       # a component that knows its own name
    W['h'] = UComp('h', 4)
    W['h2'] = UComp('h', 5)
    W['f'] = Comp('f', 6)
    W['f2'] = Comp('f', 7)
    W['g'] = Comp('g', 8)
    W['c'] = Components('c')
    # the objects the queries are made for live as long as the world: repeated
    # queries then meet the lookup caches filled by earlier ones
    for r in ('R0', 'R1'):
        W['ob' + r] = implementer(W[r])(type('Ob', (), {'nm': r}))()
    return W


def req(W, name):
    """'R0' -> [R0]; 'R0+R1' -> [R0, R1] (a multi-adapter)."""
    return [W[x] for x in name.split('+')]


def rname(required):
    return '+'.join(x.__name__ for x in required)


def all_ops(cfg):
    ops = []
    comps = cfg.get('comps', ('u', 'u2', 'v', 'h', 'h2', 'w'))
    provs = cfg.get('provided', ('P0', 'P1'))
    for comp in comps:
        for p in provs:
            for n in ('', 'n'):
                ops.append(('regU', comp, p, n))
                ops.append(('unregU', comp, p, n))
    for p in provs:
        for n in ('', 'n'):
            ops.append(('unregU', None, p, n))
    # calls that are refused (the name is not a string) change nothing
    ops += [('regU-badname', 'u', 'P0'), ('regA-badname', 'f', 'R0', 'P0')]
    facs = cfg.get('facs', ('f', 'f2', 'g'))
    for f in facs:
        for r in ('R0', 'R1') + (('R0+R1',) if cfg.get('multi') else ()):
            ops.append(('regA', f, r, 'P0', ''))
            ops.append(('unregA', f, r, 'P0', ''))
            if '+' in r:
                continue
            for p in cfg.get('sub_provided', ('P0', 'P1')):
                ops.append(('regS', f, r, p))
                ops.append(('unregS', f, r, p))
            ops.append(('regH', f, r))
            ops.append(('unregH', f, r))
    for r in ('R0', 'R1'):
        ops.append(('unregA', None, r, 'P0', ''))
        for p in cfg.get('sub_provided', ('P0', 'P1')):
            ops.append(('unregS', None, r, p))
        ops.append(('unregH', None, r))
    ops.append(('init',))
    ops.append(('rebuild',))
    # what a persistence layer does when it loads the object's state again: the
    # registration table is a new, equal object (the library's own tests do
    # this), which makes Components rebuild its volatile bookkeeping
    ops.append(('reload',))
    return ops


class Model:
    def __init__(s):
        s.utils = {}
        s.adapters = {}
        s.subs = []
        s.handlers = []


def step(W, M, op):
    """Apply op to the real object and to the model; returns an error tuple
    or None. Checks the return value and the events of this call."""
    c = W['c']
    del EVENTS[:]
    t = op[0]
    exp_events = None
    alt_events = None
    if t == 'init':
        c.__init__('c')
        M.__init__()
        exp_events = []
    elif t == 'rebuild':
        d = c.rebuildUtilityRegistryFromLocalCache(rebuild=True)
        if d['needed_registered'] or d['needed_subscribed']:
            return ('probe-found-something-to-repair', d)
        exp_events = []
    elif t == 'reload':
        c._utility_registrations = dict(c._utility_registrations)
        exp_events = []
    elif t in ('regU-badname', 'regA-badname'):
        try:
            if t == 'regU-badname':
                c.registerUtility(W[op[1]], W[op[2]], 7, info='')
            else:
                c.registerAdapter(W[op[1]], [W[op[2]]], W[op[3]], 7)
            return ('non-string-name-accepted', op)
        except ValueError:
            pass
        exp_events = []
    elif t == 'regU':
        comp, p, n = W[op[1]], W[op[2]], op[3]
        c.registerUtility(comp, p, n, info='')
        if n == '':
            # registered without a name: the component's own name, if it has one
            n = getattr(comp, '__component_name__', '')
        old = M.utils.get((op[2], n))
        if old is not None and old == comp:
            exp_events = []
        else:
            exp_events = ([('U', 'util', op[2], n, old.tag)] if old is not None else []) + \
                [('R', 'util', op[2], n, comp.tag)]
            M.utils[(op[2], n)] = comp
    elif t == 'unregU':
        comp, p, n = (W[op[1]] if op[1] else None), W[op[2]], op[3]
        ret = c.unregisterUtility(comp, p, n)
        old = M.utils.get((op[2], n))
        if old is None or (comp is not None and comp != old):
            exp_ret = False
            exp_events = []
        else:
            exp_ret = True
            exp_events = [('U', 'util', op[2], n, old.tag)]
            del M.utils[(op[2], n)]
        if ret != exp_ret:
            return ('return-value', op, ret, exp_ret)
    elif t == 'regA':
        f, p, n = W[op[1]], W[op[3]], op[4]
        c.registerAdapter(f, req(W, op[2]), p, n)
        old = M.adapters.get((op[2], op[3], n))
        M.adapters[(op[2], op[3], n)] = f
        exp_events = [('R', 'adapter', op[2], op[3], n, f.tag)]
        if old is not None:
            alt_events = [('U', 'adapter', op[2], op[3], n, old.tag)] + exp_events
    elif t == 'unregA':
        f = W[op[1]] if op[1] else None
        ret = c.unregisterAdapter(f, req(W, op[2]), W[op[3]], op[4])
        old = M.adapters.get((op[2], op[3], op[4]))
        if old is None or (f is not None and f != old):
            exp_ret = False
            exp_events = []
        else:
            exp_ret = True
            del M.adapters[(op[2], op[3], op[4])]
            exp_events = [('U', 'adapter', op[2], op[3], op[4], old.tag)]
        if ret != exp_ret:
            return ('return-value', op, ret, exp_ret)
    elif t == 'regS':
        f = W[op[1]]
        c.registerSubscriptionAdapter(f, [W[op[2]]], W[op[3]])
        M.subs.append((op[2], op[3], f))
        exp_events = [('R', 'sub', op[2], op[3], f.tag)]
    elif t == 'unregS':
        f = W[op[1]] if op[1] else None
        ret = c.unregisterSubscriptionAdapter(f, [W[op[2]]], W[op[3]])
        new = [e for e in M.subs if not (e[0] == op[2] and e[1] == op[3] and (f is None or e[2] == f))]
        removed = len(M.subs) - len(new)
        exp_ret = removed > 0
        M.subs = new
        exp_events = ('U-sub', removed)
        if ret != exp_ret:
            return ('return-value', op, ret, exp_ret)
    elif t == 'regH':
        f = W[op[1]]
        c.registerHandler(f, [W[op[2]]])
        M.handlers.append((op[2], f))
        exp_events = [('R', 'handler', op[2], f.tag)]
    elif t == 'unregH':
        f = W[op[1]] if op[1] else None
        ret = c.unregisterHandler(f, [W[op[2]]])
        new = [e for e in M.handlers if not (e[0] == op[2] and (f is None or e[1] == f))]
        removed = len(M.handlers) - len(new)
        exp_ret = removed > 0
        M.handlers = new
        exp_events = ('U-handler', removed)
        if ret != exp_ret:
            return ('return-value', op, ret, exp_ret)
    got = []
    for ev in EVENTS:
        k = 'R' if type(ev) is Registered else 'U' if type(ev) is Unregistered else '?'
        o = ev.object
        nm = type(o).__name__
        if o.registry is not c:
            return ('event-registry', op)
        if nm == 'UtilityRegistration':
            got.append((k, 'util', o.provided.__name__, o.name, o.component.tag))
        elif nm == 'AdapterRegistration':
            got.append((k, 'adapter', rname(o.required), o.provided.__name__, o.name,
                        o.factory.tag))
        elif nm == 'SubscriptionRegistration':
            got.append((k, 'sub', o.required[0].__name__, o.provided.__name__,
                        getattr(o.factory, 'tag', None)))
        elif nm == 'HandlerRegistration':
            got.append((k, 'handler', o.required[0].__name__, getattr(o.factory, 'tag', None)))
        else:
            got.append((k, nm))
    if isinstance(exp_events, tuple):
        kind, removed = exp_events
        want = 'sub' if kind == 'U-sub' else 'handler'
        # one call may remove several equal entries; 1..k events are accepted
        ok = (removed == 0 and got == []) or (
            removed > 0 and 1 <= len(got) <= removed and
            all(g[0] == 'U' and g[1] == want and g[2] == op[2] for g in got))
        if not ok:
            return ('events', op, got, exp_events)
    elif got != exp_events and got != alt_events:
        return ('events', op, got, exp_events)
    return None


def observe_check(W, M):
    c = W['c']
    lu = sorted((r.provided.__name__, r.name, r.component.ident) for r in c.registeredUtilities())
    if lu != sorted((p, n, comp.ident) for (p, n), comp in M.utils.items()):
        return ('registeredUtilities', lu)
    la = sorted((rname(r.required), r.provided.__name__, r.name, r.factory.ident)
                for r in c.registeredAdapters())
    if la != sorted((r, p, n, f.ident) for (r, p, n), f in M.adapters.items()):
        return ('registeredAdapters', la)
    ls = [(r.required[0].__name__, r.provided.__name__, r.factory.ident)
          for r in c.registeredSubscriptionAdapters()]
    if ls != [(r, p, f.ident) for r, p, f in M.subs]:
        return ('registeredSubscriptionAdapters', ls)
    lh = [(r.required[0].__name__, r.factory.ident) for r in c.registeredHandlers()]
    if lh != [(r, f.ident) for r, f in M.handlers]:
        return ('registeredHandlers', lh)
    d = c.rebuildUtilityRegistryFromLocalCache()
    if d['needed_registered'] or d['needed_subscribed']:
        return ('probe-found-something-to-repair', d)
    ut = AdapterRegistry()
    ad = AdapterRegistry()
    counted = []
    for (p, n), comp in M.utils.items():
        ut.register((), W[p], n, comp)
        if not any(cp == p and cc == comp for cp, cc in counted):
            ut.subscribe((), W[p], comp)
        counted.append((p, comp))
    for (r, p, n), f in M.adapters.items():
        ad.register(req(W, r), W[p], n, f)
    for r, p, f in M.subs:
        ad.subscribe([W[r]], W[p], f)
    for r, f in M.handlers:
        ad.subscribe([W[r]], None, f)
    for p in ('P0', 'P1'):
        for n in ('', 'n'):
            a, b = c.queryUtility(W[p], n), ut.lookup((), W[p], n)
            # two incomparable... provided P1 extends P0: most general wins, unambiguous
            if a is not b:
                return ('queryUtility', p, n, repr(a), repr(b))
        if sorted((n, x.ident) for n, x in c.getUtilitiesFor(W[p])) != \
                sorted((n, x.ident) for n, x in ut.lookupAll((), W[p])):
            return ('getUtilitiesFor', p)
        a = sorted(x.tag for x in c.getAllUtilitiesRegisteredFor(W[p]))
        b = sorted(x.tag for x in ut.subscriptions((), W[p]))
        if a != b:
            return ('getAllUtilitiesRegisteredFor', p, a, b)
    pair = (W['obR1'], W['obR1'])
    if c.queryMultiAdapter(pair, W['P0']) != ad.queryMultiAdapter(pair, W['P0']):
        return ('queryMultiAdapter', 'R1,R1')
    if sorted(c.getAdapters(pair, W['P0'])) != sorted(
            (n, f(*pair)) for n, f in ad.lookupAll([W['R1'], W['R1']], W['P0'])):
        return ('getAdapters', 'R1,R1')
    for r in ('R0', 'R1'):
        ob = W['ob' + r]
        if c.queryAdapter(ob, W['P0']) != ad.queryAdapter(ob, W['P0']):
            return ('queryAdapter', r)
        if c.queryMultiAdapter((ob,), W['P0']) != ad.queryMultiAdapter((ob,), W['P0']):
            return ('queryMultiAdapter', r)
        if sorted(c.getAdapters((ob,), W['P0'])) != sorted(
                (n, f(ob)) for n, f in ad.lookupAll([W[r]], W['P0'])):
            return ('getAdapters', r)
        for p in ('P0', 'P1'):
            if c.subscribers((ob,), W[p]) != ad.subscribers((ob,), W[p]):
                return ('subscribers', r, p)
        del HANDLED[:]
        c.handle(ob)
        got = list(HANDLED)
        del HANDLED[:]
        ad.subscribers((ob,), None)
        if got != list(HANDLED):
            return ('handle', r, got, list(HANDLED))
        if [s.ident for s in c.adapters.subscriptions([W[r]], None)] != \
                [s.ident for s in ad.subscriptions([W[r]], None)]:
            return ('handlers', r)
    return None


def hidden(W):
    c = W['c']
    cache = []
    urc = c._v_utility_registrations_cache
    if urc is not None and (urc._utilities is not c.utilities or
                            urc._utility_registrations is not c._utility_registrations):
        cache.append(('to-be-rebuilt', '', ()))
    if urc is not None:
        for prov, counter in urc._cache.items():
            if hasattr(counter, '_data'):
                items = [(repr(k), v) for k, v in counter._data]
                kind = 'unhashable'
            else:
                items = sorted((repr(k), v) for k, v in counter.items())
                kind = 'dict'
            cache.append((prov.__name__, kind, tuple(items)))
    return (registry_digest(c.adapters), registry_digest(c.utilities), tuple(sorted(cache)),
            tuple(sorted((k[0].__name__, k[1], repr(v[0])) for k, v in c._utility_registrations.items())))


def run_hist(cfg, hist):
    W = build()
    M = Model()
    for op in hist:
        e = step(W, M, tuple(op))
        if e:
            return W, M, e
        if cfg.get('warm'):
            # every listing and query after every call: later calls then run
            # against filled lookup caches
            e = observe_check(W, M)
            if e:
                return W, M, e
    return W, M, observe_check(W, M)


def expand(arg):
    cfg, hists = arg
    ops = all_ops(cfg)
    viol = []
    new = []
    local = set()
    n = 0
    for h in hists:
        for op in ops:
            hh = tuple(h) + (op,)
            n += 1
            W, M, v = run_hist(cfg, hh)
            if v:
                viol.append(dict(sig='C16:' + v[0] + (':' + v[1][0] if v[0] in ('events', 'return-value') else ''),
                                 case=dict(cfg=cfg, hist=hh),
                                 detail=dict(history=hh, violation=v)))
                continue
            key = hashlib.blake2b(repr((
                sorted((k, repr(v)) for k, v in M.utils.items()),
                sorted((k, repr(v)) for k, v in M.adapters.items()),
                [(a, b, repr(f)) for a, b, f in M.subs], [(a, repr(f)) for a, f in M.handlers],
                hidden(W))).encode(), digest_size=12).digest()
            if key not in local:
                local.add(key)
                new.append((key, hh))
        if n % 1500 < 90:
            gc.collect()
    gc.collect()
    return dict(trans=n, viol=viol, new=new)


def _t(x):
    return tuple(_t(y) for y in x) if isinstance(x, (list, tuple)) else x


def replay(case):
    W, M, v = run_hist(case['cfg'], _t(case['hist']))
    return dict(violation=v, history=case['hist']) if v else None


def run(ctx):
    from ..e1 import bfs
    from ..runner import finish
    quick = ctx.tier == 'quick'
    plans = [(dict(), 3 if quick else 3, 'full'),
             (dict(comps=('u', 'u2', 'h', 'h2'), facs=('f', 'f2')), 3 if quick else 4, 'equal-components')]
    if quick:
        plans = [(dict(), 2, 'full'),
                 (dict(comps=('u', 'u2', 'h', 'h2'), facs=('f', 'f2'), sub_provided=('P0',)), 3, 'equal-components')]
    plans += [(dict(c, warm=True), d, l + '+queries-after-every-call') for c, d, l in plans]
    # utilities only, deeper: one component under several names, reloads
    # adapters of two arities (the per-arity tables), adapters only
    plans.append((dict(comps=(), facs=('f', 'g'), multi=True, sub_provided=()), 3 if quick else 4, 'adapters-two-arities'))
    plans.append((dict(comps=('u', 'u2'), facs=(), provided=('P0',)), 6 if quick else 8, 'utilities-one-interface'))
    plans.append((dict(comps=('u', 'u2', 'h'), facs=()), 4 if quick else 5, 'utilities'))
    for impl in ('c', 'py'):
        for cfg, depth, label in plans:
            r = bfs(ctx, impl, 'expand', cfg, int(ctx.opts.get('depth', depth)), label=label)
            ctx.add(states=r['states'], transitions=r['transitions'])
            ctx.info['%s/%s' % (impl, label)] = dict(
                depth=r['depth_done'], states=r['states'], transitions=r['transitions'],
                alphabet=len(all_ops(cfg)), new_states_per_depth=r['per_level'])
            if r['frontier']:
                ctx.sample(dict(impl=impl, history=r['frontier'][len(r['frontier']) // 2]), limit=4)
            if ctx.unknown_viol():
                break
        if ctx.unknown_viol():
            break
    ctx.count['traces_validated_against_impl'] = ctx.count['transitions']
    ctx.assumptions += ['zope.event is not importable in this image; events are captured by rebinding zope.interface.registry.notify',
                        'event payloads are compared by equality of the component; where one unregister call removes several equal subscription/handler entries 1..k Unregistered events are accepted; re-registering an adapter under an existing key may emit an additional preceding Unregistered']
    return finish(
        ctx, 'model_checking',
        'every history of the eight register/unregister methods (equal/identical, hashable/unhashable components, two names, P1 extends P0, two factories per kind), re-initialisation and rebuild up to the depth is replayed on a real Components object; after every call the return value and the exact event sequence are compared with the model, and in every state the four listings, all query methods (against fresh AdapterRegistry objects populated from the model) and the consistency probe',
        'BFS over histories de-duplicated on (model, nested-container digests of both registries, utility cache counters)')
