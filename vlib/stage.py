"""Build a private, importable copy of /repo's *working tree* (Python files and
a freshly compiled C accelerator) under /verif/.stage/<digest>/.

Every check starts here, so that what is explored is the tree as it is now and
never the editable install's stale ``.so``.
"""
import fcntl
import hashlib
import os
import shutil
import subprocess
import sys
import sysconfig

VERIF = os.path.dirname(os.path.dirname(os.path.abspath(__file__)))
STAGE_ROOT = os.path.join(VERIF, '.stage')
PYTHON = '/venv/bin/python'
EXT = '_zope_interface_coptimizations'


class BuildError(Exception):
    pass


def repo_root():
    return os.environ.get('VERIF_REPO', '/repo')


def _source_files(src):
    out = []
    for dirpath, dirnames, filenames in os.walk(src):
        dirnames[:] = sorted(d for d in dirnames if d != '__pycache__')
        for f in sorted(filenames):
            if f.endswith(('.py', '.c', '.h', '.txt', '.rst')):
                out.append(os.path.join(dirpath, f))
    return out


def tree_digest(src):
    h = hashlib.sha256()
    for p in _source_files(src):
        h.update(os.path.relpath(p, src).encode() + b'\0')
        with open(p, 'rb') as f:
            h.update(f.read())
        h.update(b'\0')
    h.update(sys.version.encode())
    return h.hexdigest()[:20]


def stage(repo=None, quiet=True):
    """Return the path of a directory ``d`` such that ``d/zope/interface`` is a
    copy of the working tree with the extension compiled from its C file."""
    repo = repo or repo_root()
    src = os.path.join(repo, 'src', 'zope', 'interface')
    if not os.path.isdir(src):
        raise BuildError('no source tree at %s' % src)
    digest = tree_digest(src)
    os.makedirs(STAGE_ROOT, exist_ok=True)
    final = os.path.join(STAGE_ROOT, digest)
    if os.path.exists(os.path.join(final, '.ok')):
        os.utime(final)
        return final
    with open(os.path.join(STAGE_ROOT, '.lock'), 'w') as lock:
        fcntl.flock(lock, fcntl.LOCK_EX)
        if os.path.exists(os.path.join(final, '.ok')):
            return final
        tmp = final + '.tmp%d' % os.getpid()
        shutil.rmtree(tmp, ignore_errors=True)
        dst = os.path.join(tmp, 'zope', 'interface')
        shutil.copytree(
            src, dst,
            ignore=shutil.ignore_patterns('__pycache__', '*.so', '*.pyc', '*.o'))
        # fixture packages written by checks live next to the library
        os.makedirs(os.path.join(tmp, 'fixtures'), exist_ok=True)
        inc = sysconfig.get_paths()['include']
        suffix = sysconfig.get_config_var('EXT_SUFFIX')
        cmd = ['gcc', '-shared', '-fPIC', '-O1', '-g', '-fwrapv',
               '-I', inc, os.path.join(dst, EXT + '.c'),
               '-o', os.path.join(dst, EXT + suffix)]
        r = subprocess.run(cmd, capture_output=True, text=True)
        if r.returncode != 0:
            shutil.rmtree(tmp, ignore_errors=True)
            raise BuildError('C accelerator does not compile:\n' + r.stderr[-4000:])
        # does it import, in both modes?
        for pure in ('0', '1'):
            env = dict(os.environ, PURE_PYTHON=pure, VERIF_STAGE=tmp,
                       PYTHONPATH=VERIF, PYTHONDONTWRITEBYTECODE='1')
            r = subprocess.run(
                [PYTHON, '-c',
                 'import vlib.boot as b; b.bootstrap(); b.assert_impl()'],
                env=env, capture_output=True, text=True, cwd=VERIF)
            if r.returncode != 0:
                shutil.rmtree(tmp, ignore_errors=True)
                raise BuildError(
                    'staged tree does not import (PURE_PYTHON=%s):\n%s'
                    % (pure, r.stderr[-4000:]))
        open(os.path.join(tmp, '.ok'), 'w').close()
        shutil.rmtree(final, ignore_errors=True)
        os.rename(tmp, final)
        _prune(keep=final)
    return final


def _prune(keep, n=16):
    ds = []
    for d in os.listdir(STAGE_ROOT):
        p = os.path.join(STAGE_ROOT, d)
        if os.path.isdir(p) and p != keep:
            ds.append((os.path.getmtime(p), p))
    ds.sort(reverse=True)
    for _, p in ds[n:]:
        shutil.rmtree(p, ignore_errors=True)


if __name__ == '__main__':
    print(stage())
