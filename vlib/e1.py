"""E1 — explicit-state breadth-first search over operation histories.

A state *is* the history that reaches it (live specifications cannot be
copied): the worker function rebuilds a fresh world for every history, applies
the operations to the real objects, evaluates the oracle in the state reached
and returns a canonical key (reference-model state + digest of the hidden
implementation state) used only for de-duplication.
"""
from .runner import chunks
from .pool import NPROC


def bfs(ctx, impl, fn, cfg, depth, label='', start=None, seen=None,
        max_states=None, pool_kw=None):
    """Worker ``fn((cfg, histories))`` must return a dict with
    ``trans`` (int), ``viol`` (list), ``new`` (list of (key, history)) and
    optional ``stats`` (dict of counters).

    Returns dict(states, transitions, fixpoint, frontier, depth_done)."""
    pool_kw = pool_kw or {}
    frontier = list(start) if start is not None else [()]
    seen = seen if seen is not None else set()
    trans = 0
    fix = False
    done = 0
    per_level = []
    for d in range(1, depth + 1):
        if not frontier:
            fix = True
            break
        size = max(1, min(400, len(frontier) // (NPROC * 4) + 1))
        parts = chunks(frontier, size)
        res = ctx.map(impl, fn, [(cfg, p) for p in parts], **pool_kw)
        nxt = []
        for r in res:
            trans += r['trans']
            for v in r['viol']:
                v.setdefault('impl', impl)
                if pool_kw.get('extra_env'):
                    v.setdefault('env', pool_kw['extra_env'])
            ctx.violations(r['viol'])
            ctx.merge_counts(r.get('stats', {}))
            for key, h in r['new']:
                if key not in seen:
                    seen.add(key)
                    nxt.append(h)
        frontier = nxt
        done = d
        per_level.append(len(nxt))
        ctx.log('%s %s depth %d: +%d states (total %d), %d transitions so far'
                % (label, impl, d, len(nxt), len(seen), trans))
        if ctx.unknown_viol() and not ctx.opts.get('keep_going'):
            break
        if max_states and len(seen) > max_states:
            ctx.cap('%s: state cap %d reached at depth %d' % (label, max_states, d))
            break
    else:
        if not frontier:
            fix = True
    return dict(states=len(seen), transitions=trans, fixpoint=fix,
                frontier=frontier, depth_done=done, per_level=per_level)
