"""First thing every worker process does: make ``zope.interface`` come from the
staged copy of the working tree, in the requested implementation."""
import gc
import os
import sys


def bootstrap(stage=None):
    stage = stage or os.environ['VERIF_STAGE']
    import zope
    p = os.path.join(stage, 'zope')
    if p not in zope.__path__:
        zope.__path__.insert(0, p)
    fx = os.path.join(os.path.dirname(os.path.dirname(os.path.abspath(__file__))), 'fixtures')
    if fx not in sys.path:
        sys.path.insert(0, fx)
    import zope.interface
    assert zope.interface.__file__.startswith(stage), zope.interface.__file__
    return stage


def is_c():
    from zope.interface import adapter
    return adapter.LookupBase is not adapter.LookupBaseFallback


def assert_impl():
    want_pure = os.environ.get('PURE_PYTHON', '0') == '1'
    if want_pure == is_c():
        raise SystemExit('wrong implementation loaded: PURE_PYTHON=%r is_c=%r'
                         % (os.environ.get('PURE_PYTHON'), is_c()))
    if not want_pure:
        import zope.interface._zope_interface_coptimizations as c
        assert c.__file__.startswith(os.environ['VERIF_STAGE']), c.__file__


def worker_init(stage):
    os.environ['VERIF_STAGE'] = stage
    bootstrap(stage)
    assert_impl()
    gc.disable()
