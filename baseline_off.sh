#!/bin/bash
# Runs the repository's pinned test command with the verification guard OFF
# (ZOPE_INTERFACE_VERIF unset; no hooks exist in /repo anyway) and compares the
# set of passing tests with BASELINE.json's stable_pass. Exit 0 iff every
# stable_pass test still passes.
unset ZOPE_INTERFACE_VERIF
REPO=${VERIF_REPO:-/repo}
OUT=$(mktemp -d /tmp/verif-baseline.XXXXXX)
trap 'rm -rf "$OUT"' EXIT
cd "$REPO" || exit 2
# the extension is an ignored build product: rebuild it from the current C file
/venv/bin/python setup.py -q build_ext -i >"$OUT/build.log" 2>&1 || { cat "$OUT/build.log"; exit 2; }
rm -rf "$REPO/build"
/venv/bin/python -m pytest -ra -q -p no:cacheprovider --timeout=900 \
    --continue-on-collection-errors --junitxml="$OUT/junit.xml" >"$OUT/pytest.log" 2>&1
tail -3 "$OUT/pytest.log"
/venv/bin/python - "$OUT/junit.xml" <<'PY'
import json, sys, xml.etree.ElementTree as ET
b = set(json.load(open('/root/.vp/BASELINE.json'))['stable_pass'])
ok = set()
for tc in ET.parse(sys.argv[1]).iter('testcase'):
    if not any(c.tag in ('failure', 'error', 'skipped') for c in tc):
        ok.add(tc.get('classname') + '::' + tc.get('name'))
miss = sorted(b - ok)
print('passed %d, baseline stable_pass %d, baseline tests not passing: %d' % (len(ok), len(b), len(miss)))
for m in miss[:20]:
    print('  ', m)
sys.exit(1 if miss else 0)
PY
