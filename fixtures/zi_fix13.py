"""Importable fixture for C13: every declaration shape over a small class DAG."""
from zope.interface import (Interface, Attribute, implementer, implementer_only,
                            provider, classImplementsFirst, classImplements,
                            classImplementsOnly, directlyProvides, alsoProvides,
                            noLongerProvides, implementedBy, directlyProvidedBy)


class I0(Interface):
    """Interface for pickling tests; DEFINITION-MARKER-DOC"""
    definition_marker_attr = Attribute("DEFINITION-MARKER-ATTR")

    def definition_marker_method(a, b=1):
        """DEFINITION-MARKER-METHOD"""


class I1(I0):
    pass


class I2(Interface):
    pass


class I3(I1, I2):
    pass


# interfaces with interface methods (they get a class of their own), built by
# a helper in another module and published here
import zi_fix13b
IM, IMA, IMP = zi_fix13b.build(__name__)


class Plain:
    pass


@implementer(I0)
class A:
    pass


# an instance of the base class that was given its declaration *before* any
# subclass was declared with an *only* form (class D below)
EARLY_A = A()
directlyProvides(EARLY_A, I2)
EARLY_A2 = A()
directlyProvides(EARLY_A2, I0, I2)    # I0 is redundant: the class implements it


class B(A):                      # inherited only
    pass


@implementer(I1)
class C(A):                      # declared + inherited
    pass


@implementer_only(I2)
class D(A):                      # only form via decorator
    pass


class E(B, C):                   # first form on a diamond
    pass


classImplementsFirst(E, I2)


@provider(I2)
class F(A):                      # class-provided
    pass


@provider(I0)
@implementer_only(I1)
class G(F):                      # class-provided + only
    pass


class H(D):                      # inherits from an *only* class
    pass


class J(A):                      # only form via function, no interfaces at all
    pass


classImplementsOnly(J)


@implementer(I0)
class K(A):                      # redundant declaration
    pass


class L(D):                      # only, then a later plain declaration
    pass


classImplementsOnly(L, I3)
classImplements(L, I0)



@implementer_only(I2)
class M(A):                      # an *only* form applied twice
    pass


classImplementsOnly(M, I1)


class N(A):                      # class-provided through alsoProvides
    pass


alsoProvides(N, I2)


class O(A):                      # class-provided with nested / wrapped arguments
    pass


directlyProvides(O, (I0, (I2,)))
directlyProvides(O, directlyProvidedBy(O), I1)


class P(A):                      # class-provided, then partly withdrawn
    pass


directlyProvides(P, I1, I2)
noLongerProvides(P, I2)


class FalsyMeta(type):
    """Classes of this metaclass are falsy (think: an empty registry class)."""

    def __len__(cls):
        return 0


@implementer(I1)
class Q(metaclass=FalsyMeta):    # falsy class, declared
    pass


class R(Q):                      # falsy class, inherited declaration only
    pass


@implementer_only(I2)
class S(Q):                      # falsy class, only form
    pass


@implementer(I2)
class MetaT(type):               # a metaclass that itself implements I2
    pass


@implementer(I0)
class T(metaclass=MetaT):        # its class provides I2 through the metaclass
    pass


@provider(I1)
class U(T):                      # ... and something more, directly
    pass


class V(D):                      # only (inherited), then first and plain on top
    pass


classImplementsOnly(V, I2)
classImplementsFirst(V, I1)
classImplementsOnly(V, I3)



class W(A):                      # observed while an *only* declaration is applied
    pass


class _PicklingObserver:
    """A dependent of implementedBy(W): every time it is told about a change it
    pickles the specification and checks that it comes back as the same object."""

    def __init__(self):
        self.results = []

    def changed(self, originally_changed):
        import pickle
        spec = implementedBy(W)
        try:
            self.results.append(pickle.loads(pickle.dumps(spec)) is spec)
        except Exception as e:           # noqa
            self.results.append(repr(e))


OBSERVER = _PicklingObserver()
implementedBy(W).subscribe(OBSERVER)
classImplements(W, I2)
classImplementsOnly(W, I1)
classImplementsFirst(W, I2)


class X(A):                      # an *only* declaration that was refused half way
    pass


try:
    classImplementsOnly(X, [I1, I2])      # a list is not accepted here
except TypeError:
    pass



class OS:                        # old-style declaration in the class body
    __implemented__ = I2


implementedBy(OS)                # converts it


class OS2:                       # old-style, then a modern declaration on top
    __implemented__ = (I1, I2)


classImplements(OS2, I3)


@implementer(I1)
def factory():                   # a factory function that implements I1
    return A()


@implementer(I2)
def factory2():
    return A()


classImplements(factory2, I0)    # ... and a later declaration on it

class YB:
    pass


class Y(YB):
    pass


class Y2(YB):
    pass


# instances that had their declarations before their class (or its base) was
# declared anything
EARLY_Y = Y()
directlyProvides(EARLY_Y, I2)
EARLY_Y2 = Y2()
directlyProvides(EARLY_Y2, I1, I2)
classImplements(YB, I0)           # late, on the base
classImplements(Y2, I2)           # late, on the class itself (makes I2 redundant after the fact)
@implementer(I0)
class ZR:                        # narrowed after an instance got a (then redundant) declaration
    pass


LATE_1 = ZR()
directlyProvides(LATE_1, I0)     # redundant when it is made
classImplementsOnly(ZR, I2)
LATE_2 = ZR()
directlyProvides(LATE_2, I0)     # the same (class, I0) after the narrowing: not redundant any more
alsoProvides(LATE_1, I0)         # ... and repeated on the first instance
directlyProvides(ZR(), I3)       # an unrelated declaration in between


class IModAttr(Interface):
    """An interface that *describes* an attribute called __module__ (as
    zope.interface.interfaces.IInterface does)."""
    __module__ = Attribute("The name of the module; DEFINITION-MARKER-MODATTR")


EARLY = (('ZR', 'LATE_1'), ('ZR', 'LATE_2'), ('A', 'EARLY_A'), ('A', 'EARLY_A2'), ('Y', 'EARLY_Y'), ('Y2', 'EARLY_Y2'))

CLASSES = (Plain, A, B, C, D, E, F, G, H, J, K, L, M, N, O, P, Q, R, S, T, U, V, W, X, OS, OS2, YB, Y, Y2, ZR)
FACTORIES = (factory, factory2)
EXPECTED_DECLARED = {'OS': ['I2'], 'OS2': ['I1', 'I2', 'I3'], 'factory': ['I1'], 'factory2': ['I0', 'I2']}
BUILTINS = (list, dict, int, tuple)       # their specifications live in a registry, not on the type
IFACES = (I0, I1, I2, I3, IM, IMA, IMP, IModAttr)

INSTANCE_SHAPES = ('plain', 'dp_I2', 'dp_I1I2', 'ap_I0', 'dp_then_nlp', 'dp_I3', 'dp_empty',
                   'dp_nested', 'ap_twice')


def make(cls, shape):
    o = cls()
    if shape == 'dp_I2':
        directlyProvides(o, I2)
    elif shape == 'dp_I1I2':
        directlyProvides(o, I1, I2)
    elif shape == 'ap_I0':
        alsoProvides(o, I0)
    elif shape == 'dp_then_nlp':
        directlyProvides(o, I2, I1)
        try:
            noLongerProvides(o, I1)
        except ValueError:
            pass
    elif shape == 'dp_I3':
        directlyProvides(o, I3)
    elif shape == 'dp_empty':
        directlyProvides(o)
    elif shape == 'dp_nested':
        directlyProvides(o, (I2, [I1]))
        directlyProvides(o, directlyProvidedBy(o), I0)
    elif shape == 'ap_twice':
        alsoProvides(o, I2)
        alsoProvides(o, I1, I2)
    return o
