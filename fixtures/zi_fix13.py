"""Importable fixture for C13: every declaration shape over a small class DAG."""
from zope.interface import (Interface, Attribute, implementer, implementer_only,
                            provider, classImplementsFirst, classImplements,
                            classImplementsOnly, directlyProvides, alsoProvides,
                            noLongerProvides, implementedBy)


class I0(Interface):
    """Interface for pickling tests; DEFINITION-MARKER-DOC"""
    definition_marker_attr = Attribute("DEFINITION-MARKER-ATTR")

    def definition_marker_method(a, b=1):
        """DEFINITION-MARKER-METHOD"""


class I1(I0):
    pass


class I2(Interface):
    pass


class I3(I1, I2):
    pass


class Plain:
    pass


@implementer(I0)
class A:
    pass


class B(A):                      # inherited only
    pass


@implementer(I1)
class C(A):                      # declared + inherited
    pass


@implementer_only(I2)
class D(A):                      # only form via decorator
    pass


class E(B, C):                   # first form on a diamond
    pass


classImplementsFirst(E, I2)


@provider(I2)
class F(A):                      # class-provided
    pass


@provider(I0)
@implementer_only(I1)
class G(F):                      # class-provided + only
    pass


class H(D):                      # inherits from an *only* class
    pass


class J(A):                      # only form via function, no interfaces at all
    pass


classImplementsOnly(J)


@implementer(I0)
class K(A):                      # redundant declaration
    pass


class L(D):                      # only, then a later plain declaration
    pass


classImplementsOnly(L, I3)
classImplements(L, I0)

CLASSES = (Plain, A, B, C, D, E, F, G, H, J, K, L)
IFACES = (I0, I1, I2, I3)

INSTANCE_SHAPES = ('plain', 'dp_I2', 'dp_I1I2', 'ap_I0', 'dp_then_nlp', 'dp_I3', 'dp_empty')


def make(cls, shape):
    o = cls()
    if shape == 'dp_I2':
        directlyProvides(o, I2)
    elif shape == 'dp_I1I2':
        directlyProvides(o, I1, I2)
    elif shape == 'ap_I0':
        alsoProvides(o, I0)
    elif shape == 'dp_then_nlp':
        directlyProvides(o, I2, I1)
        try:
            noLongerProvides(o, I1)
        except ValueError:
            pass
    elif shape == 'dp_I3':
        directlyProvides(o, I3)
    elif shape == 'dp_empty':
        directlyProvides(o)
    return o
