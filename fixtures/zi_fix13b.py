"""Helper for the C13 fixture: interfaces that are *built* here but published
by (and pickled as members of) another module, named in their body."""
from zope.interface import Interface, interfacemethod


def build(module):
    class IM(Interface):
        __module__ = module

        @interfacemethod
        def helper(self):
            return 1

    class IMA(IM):
        __module__ = module

        @interfacemethod
        def __adapt__(self, obj):
            return None

    class IMP(Interface):
        __module__ = module

    return IM, IMA, IMP
